package server

// C19 - counters, bounds and every access path agree with the retrievable dataset.

import (
	"encoding/json"
	"fmt"
	"math"
	"math/rand"
	"strconv"
	"strings"
	"time"
)

func init() { registerProp("C19", runC19) }

func pairsOf(v rv) map[string]string {
	m := map[string]string{}
	for i := 0; i+1 < len(v.A); i += 2 {
		x := v.A[i+1]
		if x.T == ':' {
			m[v.A[i].S] = strconv.FormatInt(x.N, 10)
		} else {
			m[v.A[i].S] = x.S
		}
	}
	return m
}

// c19APICheck compares STATS / SERVER / BOUNDS / KEYS / SCAN COUNT with values
// recomputed from the client's own SCAN dump.
func c19APICheck(w *World, n *Node, class string) {
	ob := newObserver(w, n)
	get := func(args ...string) (rv, bool) {
		v, ok := ob.do(args...)
		if !ok && !w.failed() {
			w.harnessErr("observer got no reply for %v", args)
		}
		return v, ok
	}
	kv, ok := get("KEYS", "*")
	if !ok {
		return
	}
	totalObjs, totalStrings := 0, 0
	perKey := map[string]map[string]string{} // what STATS <key> alone reported
	for _, kk := range kv.A {
		key := kk.S
		sv, ok := get("SCAN", key, "LIMIT", "1000000")
		if !ok {
			return
		}
		if sv.T != '*' || len(sv.A) != 2 {
			w.violate(class+"/api", "SCAN %s: odd reply %s", key, clipStr(sv.String(), 200))
			return
		}
		items := sv.A[1].A
		nobj, nstr := len(items), 0
		minLat, minLon, maxLat, maxLon := math.Inf(1), math.Inf(1), math.Inf(-1), math.Inf(-1)
		spatial := 0
		for _, it := range items {
			id := it.A[0].S
			var probe map[string]interface{}
			isGeo := json.Unmarshal([]byte(it.A[1].S), &probe) == nil && probe["type"] != nil
			gv, ok := get("GET", key, id)
			if !ok {
				return
			}
			if gv.T != '$' || gv.S != it.A[1].S {
				w.violate(class+"/api", "GET %s %s returns %s but SCAN returned %s", key, id, clipStr(gv.String(), 120), clipStr(it.A[1].S, 120))
				return
			}
			if !isGeo {
				nstr++
				continue
			}
			if emptyGeoJSON(probe) {
				continue // stored and counted, but without extent: contributes nothing to BOUNDS
			}
			// is it really a geometry for the server? ask for its bounds
			bv, ok := get("GET", key, id, "BOUNDS")
			if !ok {
				return
			}
			if bv.T == '*' && len(bv.A) == 2 {
				f := func(x rv) float64 { v, _ := strconv.ParseFloat(x.S, 64); return v }
				la0, lo0, la1, lo1 := f(bv.A[0].A[0]), f(bv.A[0].A[1]), f(bv.A[1].A[0]), f(bv.A[1].A[1])
				minLat, minLon = math.Min(minLat, la0), math.Min(minLon, lo0)
				maxLat, maxLon = math.Max(maxLat, la1), math.Max(maxLon, lo1)
				spatial++
			}
		}
		// JSON documents stored as strings look like objects with no "type"; anything with a
		// "type" member that the model wrote as STRING is excluded by the generator.
		totalObjs += nobj
		totalStrings += nstr
		cv, ok := get("SCAN", key, "COUNT")
		if !ok {
			return
		}
		if cv.String() != fmt.Sprintf(":%d", nobj) {
			w.violate(class+"/api", "SCAN %s COUNT = %s but SCAN returned %d objects", key, cv.String(), nobj)
			return
		}
		iv, ok := get("SCAN", key, "LIMIT", "1000000", "IDS")
		if !ok {
			return
		}
		if len(iv.A) != 2 || len(iv.A[1].A) != nobj {
			w.violate(class+"/api", "SCAN %s IDS returned %s, want %d ids", key, clipStr(iv.String(), 120), nobj)
			return
		}
		sc, ok := get("SEARCH", key, "COUNT")
		if !ok {
			return
		}
		if sc.String() != fmt.Sprintf(":%d", nstr) {
			w.violate(class+"/api", "SEARCH %s COUNT = %s but %d string objects are retrievable", key, sc.String(), nstr)
			return
		}
		st, ok := get("STATS", key)
		if !ok {
			return
		}
		if st.T != '*' || len(st.A) != 1 || st.A[0].T != '*' {
			w.violate(class+"/api", "STATS %s: odd reply %s", key, clipStr(st.String(), 200))
			return
		}
		m := pairsOf(st.A[0])
		perKey[key] = m
		if m["num_objects"] != strconv.Itoa(nobj) || m["num_strings"] != strconv.Itoa(nstr) {
			w.violate(class+"/api", "STATS %s reports num_objects=%s num_strings=%s, retrievable: %d objects of which %d strings", key, m["num_objects"], m["num_strings"], nobj, nstr)
			return
		}
		bv, ok := get("BOUNDS", key)
		if !ok {
			return
		}
		if spatial > 0 {
			if bv.T != '*' || len(bv.A) != 2 {
				w.violate(class+"/api", "BOUNDS %s: odd reply %s", key, clipStr(bv.String(), 200))
				return
			}
			f := func(x rv) float64 { v, _ := strconv.ParseFloat(x.S, 64); return v }
			// BOUNDS key answers [[minlon minlat] [maxlon maxlat]]
			lo0, la0, lo1, la1 := f(bv.A[0].A[0]), f(bv.A[0].A[1]), f(bv.A[1].A[0]), f(bv.A[1].A[1])
			if lo0 != minLon || la0 != minLat || lo1 != maxLon || la1 != maxLat {
				w.violate(class+"/api", "BOUNDS %s = [%v %v %v %v] but the extremes of the retrievable objects are [%v %v %v %v]", key, lo0, la0, lo1, la1, minLon, minLat, maxLon, maxLat)
				return
			}
		}
	}
	// the same numbers asked for several collections at once (and one that does not exist), in
	// both output formats: every access path agrees
	if len(perKey) > 0 {
		var keys []string
		for _, kk := range kv.A {
			keys = append(keys, kk.S)
		}
		args := append(append([]string{"STATS"}, keys...), "no-such-collection")
		mv, ok := get(args...)
		if !ok {
			return
		}
		if mv.T != '*' || len(mv.A) != len(keys)+1 {
			w.violate(class+"/api", "%s: odd reply %s", strings.Join(args, " "), clipStr(mv.String(), 200))
			return
		}
		for i, key := range keys {
			got := pairsOf(mv.A[i])
			for _, f := range []string{"num_objects", "num_strings", "num_points", "in_memory_size"} {
				if got[f] != perKey[key][f] {
					w.violate(class+"/api", "%s reports %s=%s for %s, STATS %s alone reports %s", strings.Join(args, " "), f, got[f], key, key, perKey[key][f])
					return
				}
			}
		}
		if _, ok := get("OUTPUT", "json"); !ok {
			return
		}
		jv, ok := get(args...)
		if _, ok2 := get("OUTPUT", "resp"); !ok || !ok2 {
			return
		}
		var doc struct {
			OK    bool                     `json:"ok"`
			Stats []map[string]interface{} `json:"stats"`
		}
		if err := json.Unmarshal([]byte(jv.S), &doc); err != nil || !doc.OK || len(doc.Stats) != len(keys)+1 {
			w.violate(class+"/api", "%s in JSON: odd reply %s (%v)", strings.Join(args, " "), clipStr(jv.String(), 200), err)
			return
		}
		for i, key := range keys {
			for _, f := range []string{"num_objects", "num_strings", "num_points", "in_memory_size"} {
				x, _ := doc.Stats[i][f].(float64)
				if strconv.FormatFloat(x, 'f', -1, 64) != perKey[key][f] {
					w.violate(class+"/api", "%s in JSON reports %s=%v for %s, STATS %s alone (RESP) reports %s", strings.Join(args, " "), f, doc.Stats[i][f], key, key, perKey[key][f])
					return
				}
			}
		}
		w.stat("c19.multi_key_stats_checked", 1)
	}
	sv, ok := get("SERVER")
	if !ok {
		return
	}
	m := pairsOf(sv)
	if m["num_collections"] != strconv.Itoa(len(kv.A)) || m["num_objects"] != strconv.Itoa(totalObjs) || m["num_strings"] != strconv.Itoa(totalStrings) {
		w.violate(class+"/api", "SERVER reports collections=%s objects=%s strings=%s, retrievable: %d / %d / %d", m["num_collections"], m["num_objects"], m["num_strings"], len(kv.A), totalObjs, totalStrings)
	}
	w.stat("c19.api_checks", 1)
}

func runC19(w *World) {
	w.drawWeights()
	w.weights[akFault] = 0
	w.cut = cutMode(w.knob("cut", 2))
	n := w.addNode("n1", "10.0.0.1", 9851)
	inst := n.start()
	if !inst.ready() {
		w.harnessErr("node did not start")
		return
	}
	hc := newHistChecker(w, inst, newModel(), "C19")
	hc.exact = true
	w.stepHooks = append(w.stepHooks, hc.stepHook, auditHook(w, func() *Inst { return n.inst }, "C19"))
	size := []int{30, 60, 120}[w.knob("size", 3)]
	if w.deep() && w.knob("deep", 3) == 0 {
		size = 300
	}
	prog := w.program("p1", func(r *rand.Rand) []Cmd {
		g := defaultGenCfg(1)
		g.keys = []string{"k1", "k2"}
		g.freeIDs = []string{"a", "b", "c"}
		// kind changes, deadline changes, renames/drops
		g.wRead, g.wWrite, g.wMulti, g.wJSON, g.wExpire = 2, 14, 4, 3, 6
		g.exVals = []string{"0.2", "0.5", "1", "100"}
		return g.program(r, size)
	})
	a := w.addActor(n, "127.0.0.1:50001", prog)
	a.onReply = func(op *Op) { hc.onReply(op, a.end.c.name) }
	checks := 0
	// API comparison at a few points of the program and at the end
	cuts := []int{size / 3, 2 * size / 3, size}
	for _, c := range cuts {
		w.RunChaos(size*40, func() bool { return a.next >= c && len(a.outst) == 0 })
		if w.failed() {
			break
		}
		w.Drain(20*time.Second, func() bool { return a.next >= c && len(a.outst) == 0 })
		a.paused = true
		c19APICheck(w, n, "C19")
		checks++
		a.paused = false
		if w.failed() {
			break
		}
	}
	hc.finish(nil)
	w.nontriv = checks >= 2 && w.stats["audit.runs"] >= 10
	w.sample = map[string]interface{}{"seed": w.seed, "program_len": size, "audits": w.stats["audit.runs"], "api_checks": checks,
		"first_cmds": func() []string {
			var s []string
			for i, c := range prog {
				if i < 8 {
					s = append(s, clipStr(c.String(), 80))
				}
			}
			return s
		}()}
}

// emptyGeoJSON reports whether a GeoJSON value holds no position at all (an empty collection,
// or a feature / collection made only of such values).
func emptyGeoJSON(v map[string]interface{}) bool {
	all := func(x interface{}) bool {
		l, ok := x.([]interface{})
		if !ok {
			return false
		}
		for _, e := range l {
			m, ok := e.(map[string]interface{})
			if !ok || !emptyGeoJSON(m) {
				return false
			}
		}
		return true
	}
	switch v["type"] {
	case "FeatureCollection":
		return all(v["features"])
	case "GeometryCollection":
		return all(v["geometries"])
	case "Feature":
		m, ok := v["geometry"].(map[string]interface{})
		return ok && emptyGeoJSON(m)
	}
	return false
}
