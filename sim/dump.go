package server

// In-process observation of a server instance (only at quiescent points).

import (
	"bytes"
	"fmt"
	"hash/fnv"
	"os"
	"sort"
	"strings"
	"unsafe"

	"github.com/tidwall/redcon"
	"github.com/tidwall/tile38/internal/collection"
	"github.com/tidwall/tile38/internal/field"
	"github.com/tidwall/tile38/internal/object"
)

type dObj struct {
	obj     string
	spatial bool
	fields  map[string]string
	expires int64
}

type dHook struct {
	channel   bool
	key       string
	endpoints []string
	args      []string
	metas     [][2]string
	hasDL     bool
}

type Dump struct {
	cols  map[string]map[string]*dObj
	hooks map[string]*dHook
}

func (inst *Inst) dump() *Dump {
	srv := inst.srv
	d := &Dump{cols: map[string]map[string]*dObj{}, hooks: map[string]*dHook{}}
	srv.cols.Scan(func(key string, col *collection.Collection) bool {
		m := map[string]*dObj{}
		col.Scan(false, nil, nil, func(o *object.Object) bool {
			do := &dObj{spatial: objIsSpatial(o.Geo()), fields: map[string]string{}, expires: o.Expires()}
			do.obj = o.Geo().String()
			o.Fields().Scan(func(f field.Field) bool {
				// (kind included: a string whose text reads as another kind is kept quoted)
				k := fkNumber
				if f.Value().Kind() == field.String {
					k = fkString
				}
				do.fields[f.Name()] = canonField(k, f.Value().Data())
				return true
			})
			m[o.ID()] = do
			return true
		})
		d.cols[key] = m
		return true
	})
	srv.hooks.Ascend(nil, func(v interface{}) bool {
		h := v.(*Hook)
		dh := &dHook{channel: h.channel, key: h.Key, endpoints: append([]string(nil), h.Endpoints...),
			args: append([]string(nil), h.Message.Args...), hasDL: !h.expires.IsZero()}
		for _, m := range h.Metas {
			dh.metas = append(dh.metas, [2]string{m.Name, m.Value})
		}
		d.hooks[h.Name] = dh
		return true
	})
	return d
}

// text renders a dump canonically (for equality between two servers).
func (d *Dump) text(withDL bool) string {
	var b strings.Builder
	keys := make([]string, 0, len(d.cols))
	for k := range d.cols {
		keys = append(keys, k)
	}
	sort.Strings(keys)
	for _, k := range keys {
		col := d.cols[k]
		ids := make([]string, 0, len(col))
		for id := range col {
			ids = append(ids, id)
		}
		sort.Strings(ids)
		for _, id := range ids {
			o := col[id]
			fmt.Fprintf(&b, "%q %q %q %s", k, id, o.obj, fieldsExpect(o.fields))
			if withDL {
				fmt.Fprintf(&b, " dl=%v", o.expires != 0)
			}
			b.WriteByte('\n')
		}
	}
	names := make([]string, 0, len(d.hooks))
	for n := range d.hooks {
		names = append(names, n)
	}
	sort.Strings(names)
	for _, n := range names {
		h := d.hooks[n]
		fmt.Fprintf(&b, "hook %q chan=%v key=%q ep=%q args=%q metas=%v", n, h.channel, h.key, h.endpoints, h.args, h.metas)
		if withDL {
			fmt.Fprintf(&b, " dl=%v", h.hasDL)
		}
		b.WriteByte('\n')
	}
	return b.String()
}

// compareDump checks the visible dataset against the model.
func compareDump(m *Model, d *Dump, checkHooks bool) error {
	for _, k := range m.sortedKeys() {
		col := m.cols[k]
		dc := d.cols[k]
		if dc == nil {
			return fmt.Errorf("collection %q missing (model has %d objects)", k, len(col))
		}
		for _, id := range sortedIDs(col) {
			o := col[id]
			do := dc[id]
			if do == nil {
				return fmt.Errorf("object %q/%q missing", k, id)
			}
			if err := o.matches(do.obj); err != nil {
				return fmt.Errorf("object %q/%q: %v", k, id, err)
			}
			if o.spatial != do.spatial {
				return fmt.Errorf("object %q/%q: spatial=%v want %v", k, id, do.spatial, o.spatial)
			}
			if g, w := fieldsExpect(do.fields), fieldsExpect(o.fields); g != w {
				return fmt.Errorf("object %q/%q fields: got %s want %s", k, id, g, w)
			}
			if (do.expires != 0) != o.hasDL {
				return fmt.Errorf("object %q/%q has-deadline=%v want %v", k, id, do.expires != 0, o.hasDL)
			}
		}
	}
	dkeys := make([]string, 0, len(d.cols))
	for k := range d.cols {
		dkeys = append(dkeys, k)
	}
	sort.Strings(dkeys)
	for _, k := range dkeys {
		dc := d.cols[k]
		if len(dc) == 0 {
			return fmt.Errorf("empty collection %q exists", k)
		}
		mc := m.cols[k]
		dids := make([]string, 0, len(dc))
		for id := range dc {
			dids = append(dids, id)
		}
		sort.Strings(dids)
		for _, id := range dids {
			if mc == nil || mc[id] == nil {
				return fmt.Errorf("unexpected object %q/%q (%s)", k, id, clipStr(dc[id].obj, 120))
			}
		}
	}
	if checkHooks {
		hnames := make([]string, 0, len(m.hooks))
		for n := range m.hooks {
			hnames = append(hnames, n)
		}
		sort.Strings(hnames)
		for _, n := range hnames {
			h := m.hooks[n]
			dh := d.hooks[n]
			if dh == nil {
				return fmt.Errorf("hook %q missing", n)
			}
			if dh.channel != h.channel || dh.key != h.key ||
				strings.Join(dh.endpoints, ",") != strings.Join(h.endpoints, ",") ||
				strings.Join(dh.args, "\x00") != strings.Join(h.args, "\x00") ||
				fmt.Sprint(dh.metas) != fmt.Sprint(h.metas) {
				return fmt.Errorf("hook %q differs: got %+v want %+v", n, *dh, *h)
			}
			if dh.hasDL != h.hasDL {
				return fmt.Errorf("hook %q has-deadline=%v want %v", n, dh.hasDL, h.hasDL)
			}
		}
		dn := make([]string, 0, len(d.hooks))
		for n := range d.hooks {
			dn = append(dn, n)
		}
		sort.Strings(dn)
		for _, n := range dn {
			if m.hooks[n] == nil {
				return fmt.Errorf("unexpected hook %q", n)
			}
		}
	}
	return nil
}

// digest is a cheap fingerprint of everything the server lock protects; it
// changes whenever an object, collection, hook or log position changes.
func (inst *Inst) digest() uint64 {
	srv := inst.srv
	h := fnv.New64a()
	var w [8]byte
	put := func(x uint64) {
		for i := 0; i < 8; i++ {
			w[i] = byte(x >> (8 * i))
		}
		h.Write(w[:])
	}
	srv.cols.Scan(func(key string, col *collection.Collection) bool {
		h.Write([]byte(key))
		put(uint64(uintptr(unsafe.Pointer(col))))
		put(uint64(col.Count()))
		col.Scan(false, nil, nil, func(o *object.Object) bool {
			put(uint64(uintptr(unsafe.Pointer(o))))
			return true
		})
		return true
	})
	srv.hooks.Ascend(nil, func(v interface{}) bool {
		put(uint64(uintptr(unsafe.Pointer(v.(*Hook)))))
		return true
	})
	put(uint64(srv.hooksOut.Len()))
	put(uint64(srv.groupHooks.Len()))
	put(uint64(srv.groupObjects.Len()))
	put(uint64(srv.hookExpires.Len()))
	put(uint64(srv.aofsz))
	put(uint64(len(srv.aofbuf)))
	if srv.shrinking {
		put(1)
	}
	put(uint64(len(srv.shrinklog)))
	return h.Sum64()
}

// aofStream returns the whole logical log: file contents followed by the
// not-yet-flushed buffer.
func (inst *Inst) aofStream() []byte {
	srv := inst.srv
	b, err := os.ReadFile(srv.opts.AppendFileName)
	if err != nil {
		b = nil
	}
	out := make([]byte, 0, len(b)+len(srv.aofbuf))
	out = append(out, b...)
	out = append(out, srv.aofbuf...)
	return out
}

type logEntry struct {
	args []string
	end  int // offset just after this entry in the stream
}

// parseLog parses a RESP command log; trailing garbage/incomplete data is
// reported via rest.
func parseLog(b []byte) (entries []logEntry, rest []byte, err error) {
	pos := 0
	data := b
	for len(data) > 0 {
		if data[0] == 0 {
			data = data[1:]
			pos++
			continue
		}
		complete, args, _, left, perr := redcon.ReadNextCommand(data, nil)
		if perr != nil {
			return entries, data, perr
		}
		if !complete {
			return entries, data, nil
		}
		pos += len(data) - len(left)
		data = left
		if len(args) > 0 {
			e := logEntry{end: pos}
			for _, a := range args {
				e.args = append(e.args, string(a))
			}
			entries = append(entries, e)
		}
	}
	return entries, nil, nil
}

func fileContains(path string, marker []byte) bool {
	b, err := os.ReadFile(path)
	if err != nil {
		return false
	}
	return bytes.Contains(b, marker)
}

// diffKeys returns the collections whose content differs between the model
// and a dump (and whether hooks differ).
func diffKeys(m *Model, d *Dump) (keys []string, hooksDiffer bool) {
	seen := map[string]bool{}
	for k := range m.cols {
		seen[k] = true
	}
	for k := range d.cols {
		seen[k] = true
	}
	for k := range seen {
		sub := &Model{cols: map[string]map[string]*mObj{}, hooks: map[string]*mHook{}}
		if c := m.cols[k]; c != nil {
			sub.cols[k] = c
		}
		dd := &Dump{cols: map[string]map[string]*dObj{}, hooks: map[string]*dHook{}}
		if c := d.cols[k]; c != nil {
			dd.cols[k] = c
		}
		if compareDump(sub, dd, false) != nil {
			keys = append(keys, k)
		}
	}
	sort.Strings(keys)
	hm := &Model{cols: map[string]map[string]*mObj{}, hooks: m.hooks}
	hd := &Dump{cols: map[string]map[string]*dObj{}, hooks: d.hooks}
	hooksDiffer = compareDump(hm, hd, true) != nil
	return
}
