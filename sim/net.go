package server

// Simulated network: byte-stream connections whose delivery the scheduler owns.

import (
	"bytes"
	"context"
	"errors"
	"fmt"
	"io"
	"net"
	"sync"
	"time"
)

type simAddr string

func (a simAddr) Network() string { return "tcp" }
func (a simAddr) String() string  { return string(a) }

var errConnReset = errors.New("sim: connection reset by peer")
var errConnClosed = errors.New("sim: use of closed connection")
var errConnRefused = errors.New("sim: connection refused")

type simConn struct {
	id     int    // creation sequence (diagnostics only; never used for ordering)
	name   string // stable identity: label + per-label counter
	sim    *Sim
	a, b   *connEnd // a = dialer, b = acceptor
	label  string
	hidden bool // delivered automatically, never a scheduler action (zombie traffic)
}

// connEnd is one end of a connection and implements net.Conn.
type connEnd struct {
	c    *simConn
	peer *connEnd
	side byte // 'a' or 'b'

	// inbound direction (peer -> this end); guarded by sim.mu
	rbuf         []byte
	inflight     [][]byte
	inflightN    int
	peerClosed   bool // peer closed; EOF follows the in-flight bytes
	eofDelivered bool
	reset        bool
	closed       bool
	cond         *sync.Cond
	wcond        *sync.Cond // writers of the PEER end blocked on this end's full send window
	readWaiting  int        // goroutines parked in Read on this end
	wblocked     int        // goroutines parked in Write on this end (window full)
	stalledUntil time.Duration
	delivered    int // bytes ever delivered to this end
	written      int // bytes ever written by this end

	local, remote simAddr

	inst *Inst // server instance that owns this end (acceptor or dialer)

	// scheduler-owned ends (actors): called by the scheduler on delivery
	onData func(b []byte)
	onEOF  func()
	// oracle tap: called synchronously inside Write, sim.mu held
	onWrite func(e *connEnd, b []byte)
}

func (s *Sim) newConn(label string, from, to simAddr) *simConn {
	s.connSeq++
	if s.connCount == nil {
		s.connCount = map[string]int{}
	}
	s.connCount[label]++
	c := &simConn{id: s.connSeq, sim: s, label: label, name: fmt.Sprintf("%s#%d", label, s.connCount[label])}
	c.a = &connEnd{c: c, side: 'a', local: from, remote: to, cond: sync.NewCond(&s.mu), wcond: sync.NewCond(&s.mu)}
	c.b = &connEnd{c: c, side: 'b', local: to, remote: from, cond: sync.NewCond(&s.mu), wcond: sync.NewCond(&s.mu)}
	c.a.peer, c.b.peer = c.b, c.a
	s.conns = append(s.conns, c)
	return c
}

func (e *connEnd) Read(p []byte) (int, error) {
	s := e.c.sim
	if e.inst != nil && e.side == 'b' {
		s.registerGoroutine(e.inst, e.c)
	}
	s.mu.Lock()
	defer s.mu.Unlock()
	for {
		if e.closed {
			return 0, errConnClosed
		}
		if len(e.rbuf) > 0 {
			n := copy(p, e.rbuf)
			e.rbuf = e.rbuf[n:]
			if len(e.rbuf) == 0 {
				e.rbuf = nil
			}
			return n, nil
		}
		if e.reset {
			return 0, errConnReset
		}
		if e.eofDelivered {
			return 0, io.EOF
		}
		e.readWaiting++
		e.cond.Wait()
		e.readWaiting--
	}
}

func (e *connEnd) Write(p []byte) (int, error) {
	s := e.c.sim
	s.mu.Lock()
	defer s.mu.Unlock()
	if e.closed {
		return 0, errConnClosed
	}
	if e.reset {
		return 0, errConnReset
	}
	if len(p) == 0 {
		return 0, nil
	}
	if e.onWrite != nil {
		e.onWrite(e, p)
	}
	e.written += len(p)
	pe := e.peer
	// back-pressure (a knob of the run): a server goroutine whose peer has a full window of
	// undelivered bytes blocks in Write, as on a TCP socket whose reader is slow, until the
	// scheduler delivers. Actors write from the scheduler itself and never block.
	//
	// tile38 guards a connection's writes with a plain mutex shared by the connection's reader
	// goroutine (pub/sub replies) and its sender goroutine; a goroutine blocked on a plain mutex
	// is not a quiescent state the bubble can wait out. A write therefore blocks only while the
	// connection's reader is parked in Read with nothing to read, and nothing is delivered to
	// that reader while a writer is blocked (see actions()).
	if s.sndWindow > 0 && e.inst != nil && e.side == 'b' && !e.c.hidden {
		// (the leader's log streamer starts its connection's reader goroutine right before it
		// writes and shares no mutex with it: it may block before that reader has parked)
		streamer, exempt := false, false
		if pe.inflightN >= s.sndWindow {
			if s.subWindow && verifMutexInPlace && callerIn("(*Server).liveSubscription") {
				// a subscriber connection (its write mutex is the bubble-aware one, see
				// sim/seams.go): acknowledgements and messages wait for the window like the
				// log streamer does
				streamer = true
			}
			switch roleOfCaller() {
			case "liveaof":
				streamer = true
			case "pubq":
				// the forwarder of published messages shares the replication connection with
				// the log streamer; two writers blocked on one window would be woken together
				// and the same one would always win: its (small) writes are not held back
				exempt = true
			}
		}
		for !exempt && pe.inflightN >= s.sndWindow && ((e.readWaiting > 0 && len(e.rbuf) == 0) || streamer) && !e.eofDelivered &&
			!e.closed && !e.reset && !pe.closed && !pe.reset {
			s.stat("net.writes_blocked_on_window", 1)
			e.wblocked++
			pe.wcond.Wait()
			e.wblocked--
		}
		if e.closed {
			return 0, errConnClosed
		}
		if e.reset {
			return 0, errConnReset
		}
	}
	if pe.closed || pe.reset {
		// peer is gone: bytes vanish (a real stack would eventually RST)
		return len(p), nil
	}
	cp := make([]byte, len(p))
	copy(cp, p)
	pe.inflight = append(pe.inflight, cp)
	pe.inflightN += len(cp)
	if pe.inflightN > 256<<20 {
		s.harnessErr("conn %s: more than 256 MiB in flight", e.c.name)
	}
	return len(p), nil
}

func (e *connEnd) Close() error {
	s := e.c.sim
	s.mu.Lock()
	defer s.mu.Unlock()
	if e.closed {
		return nil
	}
	e.closed = true
	e.rbuf = nil
	e.inflight, e.inflightN = nil, 0
	e.peer.peerClosed = true
	e.cond.Broadcast()
	e.wcond.Broadcast()
	e.peer.wcond.Broadcast()
	return nil
}

func (e *connEnd) LocalAddr() net.Addr                { return e.local }
func (e *connEnd) RemoteAddr() net.Addr               { return e.remote }
func (e *connEnd) SetDeadline(t time.Time) error      { return nil }
func (e *connEnd) SetReadDeadline(t time.Time) error  { return nil }
func (e *connEnd) SetWriteDeadline(t time.Time) error { return nil }

// kill resets both ends and drops everything in flight. sim.mu NOT held.
func (c *simConn) kill() {
	s := c.sim
	s.mu.Lock()
	for _, e := range []*connEnd{c.a, c.b} {
		e.reset = true
		e.inflight, e.inflightN = nil, 0
		e.cond.Broadcast()
		e.wcond.Broadcast()
	}
	s.mu.Unlock()
	for _, e := range []*connEnd{c.a, c.b} {
		if e.onEOF != nil && !e.closed {
			e.onEOF()
		}
	}
}

func (c *simConn) dead() bool {
	return (c.a.closed || c.a.reset) && (c.b.closed || c.b.reset)
}

// deliverActions lists deliver actions for both directions; sim.mu held.
func (c *simConn) deliverActions() []action {
	var acts []action
	if c.hidden {
		return nil
	}
	now := c.sim.now()
	for _, e := range []*connEnd{c.a, c.b} {
		e := e
		if e.closed || e.reset {
			continue
		}
		if e.stalledUntil > now {
			continue
		}
		if e.wblocked > 0 {
			continue // its reader must stay parked while a writer of this end is blocked
		}
		if e.inflightN > 0 {
			acts = append(acts, action{kind: akDeliver, key: fmt.Sprintf("%s>%c", c.name, e.side),
				run: func() { e.deliver() }})
		} else if e.peerClosed && !e.eofDelivered {
			acts = append(acts, action{kind: akDeliver, key: fmt.Sprintf("%s>%c eof", c.name, e.side),
				run: func() { e.deliverEOF() }})
		}
	}
	return acts
}

// cutMode controls how deliveries are segmented (set per run).
type cutMode int

const (
	cutWhole cutMode = iota // always deliver everything in flight
	cutMixed                // mostly whole, sometimes write-chunk / random / 1 byte
	cutHeavy                // mostly cut
	cutBytes                // one byte at a time
)

// deliver moves a drawn number of in-flight bytes to the reader. Scheduler only.
func (e *connEnd) deliver() {
	s := e.c.sim
	total := e.inflightN
	n := total
	mode := s.cut
	if e.onData != nil && !s.cutActors {
		mode = cutWhole
	}
	// SERVER/INFO replies embed process memory statistics whose length varies
	// from execution to execution: deliver them whole and keep sizes out of the log
	volatile := false
	for _, ch := range e.inflight {
		if bytes.Contains(ch, []byte("heap_size")) || bytes.Contains(ch, []byte("used_memory")) {
			volatile = true
			mode = cutWhole
			break
		}
	}
	switch mode {
	case cutWhole:
	case cutBytes:
		n = 1
	default:
		k := 8
		if mode == cutHeavy {
			k = 3
		}
		switch r := s.ch.choose(k); {
		case r == 0:
			n = 1 + s.ch.choose(total)
		case r == 1:
			n = len(e.inflight[0])
		case r == 2 && mode == cutHeavy:
			n = 1
		}
	}
	if n > total {
		n = total
	}
	if n < total {
		s.stat("net.cut_deliveries", 1)
	}
	s.mu.Lock()
	var moved []byte
	rem := n
	for rem > 0 {
		ch := e.inflight[0]
		if len(ch) <= rem {
			moved = append(moved, ch...)
			rem -= len(ch)
			e.inflight = e.inflight[1:]
		} else {
			moved = append(moved, ch[:rem]...)
			e.inflight[0] = ch[rem:]
			rem = 0
		}
	}
	e.inflightN -= n
	e.delivered += n
	e.wcond.Broadcast()
	if e.onData == nil {
		e.rbuf = append(e.rbuf, moved...)
		e.cond.Broadcast()
	}
	s.mu.Unlock()
	if (e.onData != nil || volatile) && n == total {
		// replies may embed process statistics (SERVER): sizes are not logged
		s.logf("  delivered all")
	} else {
		s.logf("  delivered %d/%d", n, total)
	}
	s.stat("net.bytes", n)
	if e.onData != nil {
		e.onData(moved)
	}
}

func (e *connEnd) deliverEOF() {
	s := e.c.sim
	s.mu.Lock()
	e.eofDelivered = true
	e.cond.Broadcast()
	s.mu.Unlock()
	if e.onEOF != nil {
		e.onEOF()
	}
}

// ---------------------------------------------------------------------------

type simListener struct {
	sim    *Sim
	inst   *Inst
	addr   simAddr
	queue  []*connEnd
	closed bool
	cond   *sync.Cond
	// actor-backed listeners get the acceptor end immediately
	actorAccept func(e *connEnd)
	refuse      bool
}

func (l *simListener) Accept() (net.Conn, error) {
	s := l.sim
	if l.inst != nil {
		s.registerGoroutine(l.inst, nil)
	}
	s.mu.Lock()
	defer s.mu.Unlock()
	for {
		if l.closed {
			return nil, errors.New("sim: listener closed")
		}
		if len(l.queue) > 0 {
			e := l.queue[0]
			l.queue = l.queue[1:]
			return e, nil
		}
		l.cond.Wait()
	}
}

func (l *simListener) Close() error {
	s := l.sim
	s.mu.Lock()
	defer s.mu.Unlock()
	l.closed = true
	if s.addrs[string(l.addr)] == l {
		delete(s.addrs, string(l.addr))
	}
	l.cond.Broadcast()
	return nil
}

func (l *simListener) Addr() net.Addr { return l.addr }

// dial creates a connection to a listening address. Safe from any goroutine.
func (s *Sim) dial(label string, from, to simAddr) (*connEnd, error) {
	s.mu.Lock()
	l := s.addrs[string(to)]
	if l == nil || l.closed || l.refuse {
		s.mu.Unlock()
		return nil, errConnRefused
	}
	c := s.newConn(label, from, to)
	c.b.inst = l.inst
	if l.actorAccept != nil {
		s.mu.Unlock()
		l.actorAccept(c.b)
		return c.a, nil
	}
	l.queue = append(l.queue, c.b)
	l.cond.Broadcast()
	s.mu.Unlock()
	return c.a, nil
}

// curSim is the world the package-level hooks act on (one run at a time per
// process).
var curSim *Sim

func installNetHooks() {
	verifDialRESPHook = func(address string, timeout time.Duration) (net.Conn, error, bool) {
		s := curSim
		if s == nil {
			return nil, errConnRefused, true
		}
		s.mu.Lock()
		g := s.whoLocked()
		s.mu.Unlock()
		if g.inst == nil || g.inst.dead {
			return nil, errConnRefused, true
		}
		from := simAddr(fmt.Sprintf("%s:%d", g.inst.node.ip, 40000))
		e, err := s.dial("repl:"+g.inst.node.name+">"+address, from, simAddr(address))
		if err != nil {
			return nil, err, true
		}
		e.inst = g.inst
		return e, nil, true
	}
}

func simHTTPDial(ctx context.Context, network, addr string) (net.Conn, error) {
	s := curSim
	if s == nil {
		return nil, errConnRefused
	}
	s.mu.Lock()
	g := s.whoLocked()
	s.mu.Unlock()
	if g.inst == nil {
		return nil, errConnRefused
	}
	if g.inst.dead {
		// a retired instance's senders get a black hole that accepts
		// everything, so that they stop retrying and can be shut down
		return s.zombieSinkDial(), nil
	}
	from := simAddr(fmt.Sprintf("%s:%d", g.inst.node.ip, 40001))
	e, err := s.dial("http:"+g.inst.node.name+">"+addr, from, simAddr(addr))
	if err != nil {
		return nil, err
	}
	e.inst = g.inst
	return e, nil
}

// zombieSinkDial returns a connection to a private always-200 HTTP sink.
func (s *Sim) zombieSinkDial() *connEnd {
	if s.zsink == nil {
		s.zsink = &Webhook{sim: s, addr: "zombie-sink:80"}
		s.zsink.quiet = true
	}
	s.mu.Lock()
	c := s.newConn("zsink", "zombie:1", "zombie-sink:80")
	c.hidden = true
	s.mu.Unlock()
	s.zsink.accept(c.b)
	return c.a
}

// deliverAll moves everything in flight (and EOF) without drawing choices;
// used for hidden (zombie) connections only.
func (e *connEnd) deliverAll() bool {
	s := e.c.sim
	s.mu.Lock()
	if e.closed || e.reset {
		s.mu.Unlock()
		return false
	}
	var moved []byte
	for _, ch := range e.inflight {
		moved = append(moved, ch...)
	}
	e.inflight, e.inflightN = nil, 0
	e.wcond.Broadcast()
	eof := e.peerClosed && !e.eofDelivered
	if eof {
		e.eofDelivered = true
	}
	if len(moved) > 0 && e.onData == nil {
		e.rbuf = append(e.rbuf, moved...)
	}
	if len(moved) > 0 || eof {
		e.cond.Broadcast()
	}
	s.mu.Unlock()
	if len(moved) > 0 && e.onData != nil {
		e.onData(moved)
	}
	if eof && e.onEOF != nil {
		e.onEOF()
	}
	return len(moved) > 0 || eof
}
