package server

// LogModel tails an instance's append-only log (file + unflushed buffer) at
// quiescent points and maintains the reference model state after each entry.
// It is the witness order used by the history checkers.

import (
	"fmt"
	"os"
	"strings"
	"time"
)

type lmEntry struct {
	args  []string
	step  int           // action number during which the entry was appended
	t     time.Duration // virtual time of that action
	owner string        // filled in by checkers: who caused it
	conn  string        // connection whose goroutine held the exclusive lock when it was appended
	op    *Op           // the client op that caused it (set when claimed)
	res   mResult       // model result of applying it
	gen   int           // log generation (bumped by a rewrite)
}

type LogModel struct {
	inst     *Inst
	entries  []lmEntry
	states   []*Model // states[i] = model after i entries
	consumed int      // stream offset parsed so far
	lastFile *os.File
	gen      int
	bad      error
	// onEntry is called for every new entry after it was applied to the model
	onEntry func(e *lmEntry, before, after *Model)
}

// newLogModel starts tailing inst from its current log position; initial is
// the model state corresponding to what the instance loaded at boot.
func newLogModel(inst *Inst, initial *Model) *LogModel {
	lm := &LogModel{inst: inst}
	lm.states = []*Model{initial}
	lm.consumed = inst.srv.aofsz
	lm.lastFile = inst.srv.aof
	return lm
}

func (lm *LogModel) cur() *Model { return lm.states[len(lm.states)-1] }

// streamRange reads stream[from:to] where the stream is file ++ aofbuf and
// aofsz is its total length.
func (inst *Inst) streamRange(from, to int) ([]byte, error) {
	srv := inst.srv
	total := srv.aofsz
	bufStart := total - len(srv.aofbuf)
	out := make([]byte, 0, to-from)
	if from < bufStart {
		f, err := os.Open(srv.opts.AppendFileName)
		if err != nil {
			return nil, err
		}
		defer f.Close()
		end := to
		if end > bufStart {
			end = bufStart
		}
		b := make([]byte, end-from)
		n, err := f.ReadAt(b, int64(from))
		if n != len(b) {
			return nil, fmt.Errorf("short read of log file: %d of %d at %d: %v", n, len(b), from, err)
		}
		out = append(out, b...)
		from = end
	}
	if to > from {
		out = append(out, srv.aofbuf[from-bufStart:to-bufStart]...)
	}
	return out, nil
}

// poll consumes new log entries. Call only at quiescent points.
func (lm *LogModel) poll() {
	inst := lm.inst
	srv := inst.srv
	s := inst.node.sim
	if srv == nil || lm.bad != nil {
		return
	}
	if srv.aof != lm.lastFile {
		// the log file was replaced (rewrite): offsets restart
		lm.lastFile = srv.aof
		lm.consumed = srv.aofsz
		lm.gen++
		return
	}
	// the file is exactly as long as the server's log position minus what is still buffered
	// (checked at quiescent points only, outside a rewrite's swap)
	if inst.atPoint == "" && !srv.shrinking {
		if fi, err := os.Stat(srv.opts.AppendFileName); err == nil && int(fi.Size())+len(srv.aofbuf) != srv.aofsz {
			lm.bad = fmt.Errorf("the log file holds %d bytes and %d are buffered, but the server's log position is %d", fi.Size(), len(srv.aofbuf), srv.aofsz)
			return
		}
	}
	if srv.aofsz == lm.consumed {
		return
	}
	if srv.aofsz < lm.consumed {
		lm.bad = fmt.Errorf("log position went backwards without a file swap: %d -> %d", lm.consumed, srv.aofsz)
		return
	}
	b, err := inst.streamRange(lm.consumed, srv.aofsz)
	if err != nil {
		lm.bad = err
		return
	}
	ents, rest, perr := parseLog(b)
	if perr != nil || len(rest) > 0 {
		lm.bad = fmt.Errorf("log tail does not parse as whole commands (%d stray bytes, err %v)", len(rest), perr)
		return
	}
	lm.consumed = srv.aofsz
	step := s.step
	t := s.now()
	for _, e := range ents {
		before := lm.cur()
		after := before.clone()
		r := after.apply(e.args, t)
		le := lmEntry{args: e.args, step: step, t: t, res: r, gen: lm.gen}
		lm.entries = append(lm.entries, le)
		lm.states = append(lm.states, after)
		s.logf("  log+ %s", clipStr(strings.Join(e.args, " "), 160))
		if lm.onEntry != nil {
			lm.onEntry(&lm.entries[len(lm.entries)-1], before, after)
		}
	}
}

// posBefore returns the number of entries appended strictly before action
// number step.
func (lm *LogModel) posBefore(step int) int {
	n := 0
	for n < len(lm.entries) && lm.entries[n].step < step {
		n++
	}
	return n
}

// posThrough returns the number of entries appended up to and including step.
func (lm *LogModel) posThrough(step int) int {
	n := 0
	for n < len(lm.entries) && lm.entries[n].step <= step {
		n++
	}
	return n
}

func sameArgs(a, b []string) bool {
	if len(a) != len(b) {
		return false
	}
	for i := range a {
		if a[i] != b[i] {
			return false
		}
	}
	return true
}

// modelFromLog replays a raw log (as found on disk) into a fresh model with
// every command executed at virtual time now (what a restart does).
func modelFromLog(b []byte, now time.Duration) (*Model, []logEntry, []byte, error) {
	ents, rest, err := parseLog(b)
	m := newModel()
	for _, e := range ents {
		m.apply(e.args, now)
	}
	return m, ents, rest, err
}
