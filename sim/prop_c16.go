package server

// C16 - replies depend on the bytes sent, not on packetisation; bad input is contained.

import (
	"bytes"
	"fmt"
	"math/rand"
	"regexp"
	"strings"
	"time"
)

func init() { registerProp("C16", runC16) }

var elapsedRe = regexp.MustCompile(`"elapsed":"[^"]*"`)

func normReplies(b []byte) []byte {
	return elapsedRe.ReplaceAll(b, []byte(`"elapsed":"X"`))
}

// c16Stream generates one request stream and the number of replies expected.
func c16Stream(r *rand.Rand, kind int) (stream []byte, ncmds int, desc string) {
	g := defaultGenCfg(1)
	g.keys = []string{"k1", "k2"}
	g.exVals = []string{"1000"}
	g.noFlush = true
	big := func() string { return "B" + strings.Repeat("y", 70000+r.Intn(130000)) }
	cmdArgs := func() []string {
		switch r.Intn(12) {
		case 0:
			return []string{"FSET", "k1", pick(r, g.freeIDs), "XX", "f1", fmt.Sprint(g.uniq())}
		case 1:
			return []string{"SET", "k1", pick(r, g.freeIDs), "STRING", "v with spaces " + fmt.Sprint(g.uniq())}
		case 2:
			// the output format is connection state that changes in the middle of the stream
			return [][]string{{"OUTPUT", "json"}, {"OUTPUT", "resp"}, {"OUTPUT"}, {"OUTPUT", "json"}}[r.Intn(4)]
		default:
			return g.cmd(r).Args
		}
	}
	output := func() (string, bool) {
		if r.Intn(4) != 0 {
			return "", false
		}
		return []string{"OUTPUT json", "OUTPUT resp", "OUTPUT", "OUTPUT json"}[r.Intn(4)], true
	}
	switch kind {
	case 0: // RESP pipeline, short
		n := 2 + r.Intn(6)
		for i := 0; i < n; i++ {
			stream = append(stream, encodeCmd(cmdArgs())...)
		}
		if r.Intn(3) == 0 {
			// the client says goodbye at the end of its pipeline: everything before it is answered
			stream = append(stream, encodeCmd([]string{"QUIT"})...)
			return stream, n + 1, fmt.Sprintf("RESP pipeline of %d commands and QUIT", n)
		}
		return stream, n, fmt.Sprintf("RESP pipeline of %d commands", n)
	case 1: // telnet-style inline commands
		n := 2 + r.Intn(5)
		for i := 0; i < n; i++ {
			a := []string{"SET", "k1", pick(r, g.freeIDs), "POINT", g.lat(r), g.lon(r)}
			if r.Intn(2) == 0 {
				a = []string{"GET", "k1", pick(r, g.freeIDs), "POINT"}
			}
			if o, ok := output(); ok {
				a = strings.Fields(o)
			}
			stream = append(stream, []byte(strings.Join(a, " ")+"\r\n")...)
		}
		if r.Intn(3) == 0 {
			stream = append(stream, []byte("QUIT\r\n")...)
			return stream, n + 1, fmt.Sprintf("telnet-style stream of %d commands and QUIT", n)
		}
		return stream, n, fmt.Sprintf("telnet-style stream of %d commands", n)
	case 2: // native protocol: $<len> <command>\r\n
		n := 2 + r.Intn(4)
		for i := 0; i < n; i++ {
			a := strings.Join([]string{"SET", "k1", pick(r, g.freeIDs), "POINT", g.lat(r), g.lon(r)}, " ")
			if r.Intn(2) == 0 {
				a = "GET k1 " + pick(r, g.freeIDs)
			}
			if o, ok := output(); ok {
				a = o
			}
			stream = append(stream, []byte(fmt.Sprintf("$%d %s\r\n", len(a), a))...)
		}
		if r.Intn(3) == 0 {
			stream = append(stream, []byte("$4 QUIT\r\n")...)
			return stream, n + 1, fmt.Sprintf("native-protocol stream of %d commands and QUIT", n)
		}
		return stream, n, fmt.Sprintf("native-protocol stream of %d commands", n)
	case 3: // HTTP GET
		a := []string{"SET", "k1", pick(r, g.freeIDs), "POINT", g.lat(r), g.lon(r)}
		return []byte(httpReq(a, "")), 1, "HTTP GET"
	case 4: // HTTP POST with body
		body := "SET k1 " + pick(r, g.freeIDs) + " POINT " + g.lat(r) + " " + g.lon(r)
		req := fmt.Sprintf("POST / HTTP/1.1\r\nHost: x\r\nContent-Length: %d\r\n\r\n%s", len(body), body)
		return []byte(req), 1, "HTTP POST"
	case 7: // valid commands, then a frame that breaks the protocol: the commands ahead of it count
		n := 2 + r.Intn(5)
		for i := 0; i < n; i++ {
			stream = append(stream, encodeCmd(cmdArgs())...)
		}
		bad := [][]byte{[]byte("*2\r\n$3\r\nGET\r\n$-5\r\n"), []byte("*x\r\n"), []byte("*1\r\n$zz\r\nPING\r\n"),
			[]byte("*3\r\n$3\r\nSET\r\n:12\r\n"), []byte("SET k1 \"unbalanced POINT 1 1\r\n"), []byte("*-7\r\n")}[r.Intn(6)]
		stream = append(stream, bad...)
		if r.Intn(2) == 0 {
			stream = append(stream, encodeCmd([]string{"PING"})...)
		}
		return stream, n, fmt.Sprintf("RESP pipeline of %d commands followed by a malformed frame", n)
	case 5: // values larger than the 64 KiB read buffer
		n := 2 + r.Intn(3)
		for i := 0; i < n; i++ {
			if i%2 == 0 {
				stream = append(stream, encodeCmd([]string{"SET", "k1", pick(r, g.freeIDs), "STRING", big()})...)
			} else {
				stream = append(stream, encodeCmd([]string{"GET", "k1", pick(r, g.freeIDs)})...)
			}
		}
		return stream, n, fmt.Sprintf("RESP pipeline of %d commands with 70-200 KiB values (%d bytes)", n, len(stream))
	default: // pipeline of thousands of commands
		n := 1500 + r.Intn(2500)
		for i := 0; i < n; i++ {
			if i%3 == 0 {
				stream = append(stream, encodeCmd([]string{"SET", "k1", fmt.Sprintf("id%d", i%50), "POINT", "33", fmt.Sprint(-115 + i%10)})...)
			} else {
				stream = append(stream, encodeCmd([]string{"GET", "k1", fmt.Sprintf("id%d", (i*7)%50), "POINT"})...)
			}
		}
		return stream, n, fmt.Sprintf("RESP pipeline of %d commands (%d bytes)", n, len(stream))
	}
}

// c16Send writes the stream in the given segments on a fresh connection and
// returns every byte the server answered.
func c16Send(w *World, n *Node, addr simAddr, stream []byte, cuts []int) ([]byte, bool) {
	a := w.addActor(n, addr, nil)
	a.keepRaw = true
	a.paused = true
	a.rawOnly = true
	if !a.connect() {
		w.harnessErr("cannot connect")
		return nil, false
	}
	prev := 0
	for _, c := range append(append([]int{}, cuts...), len(stream)) {
		if c <= prev || c > len(stream) {
			continue
		}
		a.end.Write(stream[prev:c])
		prev = c
		w.Settle()
		if w.failed() {
			return nil, false
		}
	}
	w.Settle()
	w.Sleep(20 * time.Millisecond)
	w.Settle()
	out := append([]byte(nil), a.rawIn...)
	a.close()
	w.Settle()
	return out, true
}

func runC16(w *World) {
	w.cut = cutWhole // segmentation is decided by the writes, not by the network
	w.weights[akFault] = 0
	w.maxSteps = 5000000
	n := w.addNode("n1", "10.0.0.1", 9851)
	n.opts.UseHTTP = true
	inst := n.start()
	if !inst.ready() {
		w.harnessErr("node did not start")
		return
	}
	if w.seed%4 == 3 {
		runC16Containment(w, n)
		return
	}
	kind := w.knob("kind", 8)
	var stream []byte
	var ncmds int
	var desc string
	prog := w.program("stream", func(r *rand.Rand) []Cmd {
		s, nc, d := c16Stream(r, kind)
		return []Cmd{{Raw: string(s), Tag: fmt.Sprintf("%d|%s", nc, d)}}
	})
	if len(prog) == 0 {
		w.nontriv = false
		return
	}
	stream = []byte(prog[0].Raw)
	fmt.Sscanf(prog[0].Tag, "%d|", &ncmds)
	desc = prog[0].Tag[strings.Index(prog[0].Tag, "|")+1:]
	ob := newObserver(w, n)
	flush := func() bool {
		v, ok := ob.do("FLUSHDB")
		return ok && v.String() == "+OK"
	}
	port := 50010
	send := func(cuts []int) ([]byte, bool) {
		port++
		out, ok := c16Send(w, n, simAddr(fmt.Sprintf("127.0.0.1:%d", port)), stream, cuts)
		if !ok {
			return nil, false
		}
		if !flush() {
			if !w.failed() {
				w.harnessErr("FLUSHDB between variants failed")
			}
			return nil, false
		}
		return normReplies(out), true
	}
	base, ok := send(nil)
	if !ok {
		return
	}
	// baseline sanity: one reply per command, in order
	// (a connection switched to JSON output does not answer in plain RESP framing: such streams are
	// only compared with their own uncut baseline)
	if (kind == 0 || kind == 1 || kind == 5 || kind == 6) && !bytes.Contains(stream, []byte("OUTPUT")) {
		cnt := 0
		rest := base
		for len(rest) > 0 {
			_, m, ok, err := parseRESP(rest)
			if err != nil || !ok {
				w.violate("C16/baseline", "%s sent in one segment: the reply stream is not a sequence of complete RESP values (after %d replies)", desc, cnt)
				return
			}
			rest = rest[m:]
			cnt++
		}
		if cnt != ncmds {
			w.violate("C16/baseline", "%s sent in one segment: %d replies for %d commands", desc, cnt, ncmds)
			return
		}
	}
	variants := 0
	check := func(cuts []int, what string) bool {
		got, ok := send(cuts)
		if !ok {
			return false
		}
		variants++
		if !bytes.Equal(got, base) {
			i := 0
			for i < len(got) && i < len(base) && got[i] == base[i] {
				i++
			}
			w.violate("C16/segmentation", "%s: replies differ when the stream is cut %s: %d reply bytes instead of %d; first difference at reply byte %d (uncut: %q, cut: %q)",
				desc, what, len(got), len(base), i, clipStr(string(base[i:min(len(base), i+60)]), 80), clipStr(string(got[i:min(len(got), i+60)]), 80))
			return false
		}
		return true
	}
	L := len(stream)
	exhaustive2 := L <= 700
	if exhaustive2 {
		for c := 1; c < L; c++ {
			if !check([]int{c}, fmt.Sprintf("into two segments at byte %d", c)) {
				return
			}
		}
	} else {
		// interesting two-way cuts: around CR/LF, around '$' lengths, around multiples of 0xFFFF
		var cs []int
		for m := 0xFFFF; m < L; m += 0xFFFF {
			for d := -2; d <= 2; d++ {
				cs = append(cs, m+d)
			}
		}
		for i := 0; i < 24; i++ {
			p := w.ch.choose(L-1) + 1
			if j := bytes.Index(stream[p:], []byte("\r\n")); j >= 0 && w.ch.choose(2) == 0 {
				p += j + w.ch.choose(3)
			}
			cs = append(cs, p)
		}
		for _, c := range cs {
			if c <= 0 || c >= L {
				continue
			}
			if !check([]int{c}, fmt.Sprintf("into two segments at byte %d", c)) {
				return
			}
		}
	}
	if L <= 400 {
		var all []int
		for c := 1; c < L; c++ {
			all = append(all, c)
		}
		if !check(all, "into single bytes") {
			return
		}
	}
	for i := 0; i < 6; i++ {
		k := 2 + w.ch.choose(6)
		set := map[int]bool{}
		for j := 0; j < k; j++ {
			p := w.ch.choose(L-1) + 1
			switch w.ch.choose(4) {
			case 0:
				if q := bytes.Index(stream[p:], []byte("\r\n")); q >= 0 {
					p += q + 1 // between CR and LF
				}
			case 1:
				if q := bytes.IndexByte(stream[p:], '$'); q >= 0 {
					p += q + 1
				}
			}
			if p > 0 && p < L {
				set[p] = true
			}
		}
		var cuts []int
		for c := 1; c < L; c++ {
			if set[c] {
				cuts = append(cuts, c)
			}
		}
		if !check(cuts, fmt.Sprintf("at bytes %v", cuts)) {
			return
		}
	}
	w.stat("c16.segmentations_checked", variants)
	if exhaustive2 {
		w.stat("c16.streams_with_all_two_way_cuts", 1)
	}
	w.nontriv = variants >= 5
	w.sigExtra = fmt.Sprintf("seg/%d/%d", w.seed, kind)
	w.sample = map[string]interface{}{"seed": w.seed, "stream": desc, "stream_bytes": L, "segmentations": variants, "all_two_way_cuts": exhaustive2,
		"head": clipStr(strings.ToValidUTF8(string(stream[:min(L, 120)]), "?"), 140)}
}

// ---------------------------------------------------------------------------
// containment: garbage on one connection, a bystander running a checked program

func c16Garbage(r *rand.Rand) []byte {
	g := defaultGenCfg(3)
	g.keys = []string{"k1", "kz"}
	valid := func() []string {
		switch r.Intn(10) {
		case 0:
			return []string{"FSET", "k1", pick(r, []string{"a", "missing", "b"}), "XX", "f1", "1", "RETURN"}
		case 1:
			return []string{"SET", "k1", pick(r, g.freeIDs), "RETURN", "WITHFIELDS", "POINT", "1", "2"}
		case 2:
			return []string{"FSET", "k1", pick(r, []string{"a", "nothere"}), "RETURN", "XX", "f1", "2"}
		case 3:
			return []string{"NEARBY", "k1", "LIMIT", "0", "POINT", "1", "2", "-5"}
		case 4:
			return []string{"WITHIN", "k1", "BOUNDS", "91", "181", "-91", "-181"}
		case 5:
			return []string{"SETHOOK", "h", "http://hook0.sim:80/", "NEARBY", "k1", "FENCE", "ROAM", "k1", "*", "10"}
		case 6:
			return []string{"TIMEOUT", "-1", "SCAN", "k1"}
		case 7:
			return []string{"JSET", "k1", "a", "", "x"}
		default:
			return g.cmd(r).Args
		}
	}
	var out []byte
	n := 1 + r.Intn(6)
	for i := 0; i < n; i++ {
		switch r.Intn(8) {
		case 0: // random bytes
			b := make([]byte, 1+r.Intn(60))
			r.Read(b)
			out = append(out, b...)
		case 1: // wrong bulk length
			a := valid()
			e := encodeCmd(a)
			e = bytes.Replace(e, []byte("$"+fmt.Sprint(len(a[0]))), []byte("$"+fmt.Sprint(len(a[0])+r.Intn(5)-2)), 1)
			out = append(out, e...)
		case 2: // truncated array
			e := encodeCmd(valid())
			out = append(out, e[:r.Intn(len(e))]...)
			out = append(out, '\r', '\n')
		case 3: // huge counts
			out = append(out, []byte(fmt.Sprintf("*%d\r\n$%d\r\n", 1<<uint(10+r.Intn(40)), 1<<uint(10+r.Intn(40))))...)
		case 4: // flipped byte in a valid command
			e := encodeCmd(valid())
			e[r.Intn(len(e))] ^= byte(1 << uint(r.Intn(8)))
			out = append(out, e...)
		case 5: // permuted / dropped arguments
			a := valid()
			r.Shuffle(len(a)-1, func(i, j int) { a[i+1], a[j+1] = a[j+1], a[i+1] })
			if len(a) > 2 && r.Intn(2) == 0 {
				a = a[:len(a)-1]
			}
			out = append(out, encodeCmd(a)...)
		case 6: // malformed HTTP
			out = append(out, badHTTP(r)...)
		default: // valid command with unusual option order
			out = append(out, encodeCmd(valid())...)
		}
	}
	return out
}

func runC16Containment(w *World, n *Node) {
	w.drawWeights()
	w.weights[akFault] = 0
	w.cut = cutMode(w.knob("cut", 3))
	inst := n.inst
	// the fuzzed connections aim at an existing collection
	pre := newObserver(w, n)
	pre.do("SET", "k1", "a", "FIELD", "f1", "5", "POINT", "1", "2")
	pre.do("SET", "k1", "b", "STRING", "hello")
	w.Settle()
	initial, _, _, _ := modelFromLog(inst.aofStream(), w.now())
	hc := newHistChecker(w, inst, initial, "C16")
	hc.exact = false
	w.stepHooks = append(w.stepHooks, hc.stepHook)
	// entries written by the fuzzed connection are not bystander ops: the
	// dataset check is restricted to the bystander's private collections
	hc.checkDump = false
	by := w.program("bystander", func(r *rand.Rand) []Cmd {
		g := defaultGenCfg(1)
		g.keys = []string{"by1", "by2"}
		g.noFlush = true
		p := g.program(r, 25)
		for i := range p {
			// the bystander only looks at its own collections: what the fuzzed
			// connections manage to create elsewhere is not modelled
			if strings.EqualFold(p[i].Args[0], "KEYS") {
				p[i].Args[1] = "by*"
			}
		}
		return p
	})
	b := w.addActor(n, "127.0.0.1:50001", by)
	b.onReply = func(op *Op) { hc.onReply(op, b.end.c.name) }
	hc.tolerateUndef = func(conn string) bool { return !strings.HasPrefix(conn, "a01#") }
	nf := 3 + w.knob("fuzzconns", 4)
	var fz []*Actor
	for i := 0; i < nf; i++ {
		i := i
		p := w.program(fmt.Sprintf("fuzz%d", i), func(r *rand.Rand) []Cmd {
			if r.Intn(3) == 0 {
				// a connection that speaks (bad) HTTP from its first byte
				return []Cmd{{Raw: string(badHTTP(r)), Pipe: true}, {Args: []string{"PING"}, Pipe: true}}
			}
			return []Cmd{{Raw: string(c16Garbage(r)), Pipe: true}, {Args: []string{"PING"}, Pipe: true}}
		})
		a := w.addActor(n, simAddr(fmt.Sprintf("127.0.0.1:%d", 50100+i)), p)
		a.rawOnly = true
		a.keepRaw = true
		a.reconnect = false
		fz = append(fz, a)
	}
	// one more connection per run sends a fixed degenerate HTTP request, the list cycled by the
	// seed (what the drawn garbage reaches only now and then)
	degenerate := []string{
		"GET /+ HTTP/1.1\r\n\r\n", "GET /%20 HTTP/1.1\r\n\r\n", "GET /+%20+ HTTP/1.1\r\nHost: x\r\n\r\n", "GET /%09 HTTP/1.0\r\n\r\n",
		"POST / HTTP/1.1\r\nContent-Length: 1\r\n\r\n ", "POST / HTTP/1.1\r\nContent-Length: 3\r\n\r\n \t ", "POST /+ HTTP/1.1\r\nContent-Length: 0\r\n\r\n",
		"GET / HTTP/1.1\r\n\r\n", "GET  HTTP/1.1\r\n\r\n", "GET /%zz HTTP/1.1\r\n\r\n", "GET /ping HTTP/9.9\r\n\r\n", "OPTIONS /+ HTTP/1.1\r\n\r\n",
	}
	dh := w.addActor(n, "127.0.0.1:50199", []Cmd{{Raw: degenerate[int(w.seed/4)%len(degenerate)], Pipe: true}})
	dh.rawOnly, dh.keepRaw, dh.reconnect = true, true, false
	done := func() bool { return b.done() }
	w.RunChaos(25*80+nf*200, done)
	if !w.failed() && !done() {
		w.Drain(30*time.Second, done)
	}
	w.Sleep(100 * time.Millisecond)
	if !w.failed() && !b.done() {
		w.violate("C16/bystander", "the bystander connection did not finish its program (%d of %d commands) while other connections sent malformed input", b.next, len(b.prog))
		return
	}
	// the server is alive: a fresh connection is served
	ob := newObserver(w, n)
	if v, ok := ob.do("PING"); !ok || v.String() != "+PONG" {
		if !w.failed() {
			w.violate("C16/alive", "after malformed input on other connections a fresh connection gets %s to PING", v.String())
		}
		return
	}
	// every fuzzed connection got an answer or was closed
	for _, a := range fz {
		if a.next > 0 && len(a.rawIn) == 0 && a.connected() {
			w.stat("c16.fuzz_conn_left_waiting", 1) // incomplete input may legitimately wait for more bytes
		}
	}
	w.stat("c16.fuzz_connections", nf)
	w.stat("c16.bystander_ops_checked", hc.nChecked)
	w.nontriv = hc.nChecked >= 20
	w.sigExtra = ""
	w.sample = map[string]interface{}{"seed": w.seed, "mode": "containment", "fuzzed_connections": nf, "bystander_ops": hc.nChecked,
		"garbage_head": clipStr(strings.ToValidUTF8(fz[0].prog[0].Raw, "?"), 120)}
}

// badHTTP builds an HTTP request that is malformed or degenerate in one of several ways: bad
// escapes, paths and bodies that hold nothing but argument separators, odd methods, lying or
// negative Content-Length, missing version.
func badHTTP(r *rand.Rand) []byte {
	pieces := []string{"%zz", "+", "%20", "%2", "%", "a+b", "/", "?x=1", "%00", "+%20+", "ping", "%0d%0a"}
	if r.Intn(3) == 0 {
		pieces = []string{"+", "%20", "+", "%09"} // nothing but argument separators
	}
	path := "/"
	for i, n := 0, r.Intn(4); i < n; i++ {
		path += pieces[r.Intn(len(pieces))]
	}
	method := []string{"GET", "GET", "POST", "POST", "PUT", "HEAD", "get", "G\x00T", ""}[r.Intn(9)]
	version := []string{" HTTP/1.1", " HTTP/1.1", " HTTP/1.0", "", " HTTP/9.9", " FTP/1.1"}[r.Intn(6)]
	body := []string{"", " ", "  \t ", "+", "\r\n", "ping", "set k1"}[r.Intn(7)]
	cl := len(body)
	switch r.Intn(5) {
	case 0:
		cl = r.Intn(50) - 10
	case 1:
		cl += 1 + r.Intn(3)
	}
	hdr := fmt.Sprintf("Content-Length: %d\r\n", cl)
	if r.Intn(5) == 0 {
		hdr = ""
	}
	if r.Intn(6) == 0 {
		hdr += "Authorization: \r\n"
	}
	return []byte(method + " " + path + version + "\r\n" + hdr + "\r\n" + body)
}
