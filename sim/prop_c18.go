package server

// C18 - scripts are atomic, honour their read-only variants, and are sandboxed.

import (
	"fmt"
	"math/rand"
	"sort"
	"strconv"
	"strings"
	"time"

	lua "github.com/yuin/gopher-lua"
)

func init() { registerProp("C18", runC18) }

// A generated script is a straight-line sequence of tile38.call steps whose
// results are returned as one array.
func scriptOp(ev string, steps [][]string) Cmd {
	var b strings.Builder
	var argv []string
	b.WriteString("local r = {} ")
	for i, st := range steps {
		fmt.Fprintf(&b, "r[%d] = tile38.call(", i+1)
		for j, a := range st {
			if j > 0 {
				b.WriteString(", ")
			}
			argv = append(argv, a)
			fmt.Fprintf(&b, "ARGV[%d]", len(argv))
		}
		b.WriteString(") ")
	}
	b.WriteString("return r")
	args := append([]string{ev, b.String(), "0"}, argv...)
	return Cmd{Args: args, Inner: steps, Tag: "steps"}
}

func genScript(r *rand.Rand, g *genCfg) Cmd {
	key := pick(r, g.keys)
	a, b := pick(r, g.freeIDs), pick(r, g.freeIDs)
	ev := []string{"EVAL", "EVAL", "EVALNA", "EVALRO"}[r.Intn(4)]
	rd := func(id string) []string {
		switch r.Intn(3) {
		case 0:
			return []string{"GET", key, id}
		case 1:
			return []string{"FGET", key, id, "f1"}
		default:
			return []string{"EXISTS", key, id}
		}
	}
	wr := func(id string) []string {
		switch r.Intn(7) {
		case 4:
			return []string{"SET", key, id, "EX", "1000", "POINT", g.lat(r), g.lon(r)}
		case 5:
			return []string{"EXPIRE", key, id, "1000"}
		case 6:
			return []string{"PERSIST", key, id}
		case 0:
			return []string{"SET", key, id, "STRING", fmt.Sprintf("s%d", g.uniq())}
		case 1:
			return []string{"SET", key, id, "POINT", g.lat(r), g.lon(r)}
		case 2:
			return []string{"FSET", key, id, "XX", "f1", strconv.Itoa(g.uniq())}
		default:
			return []string{"DEL", key, id}
		}
	}
	var steps [][]string
	if ev == "EVALRO" {
		n := 2 + r.Intn(3)
		for i := 0; i < n; i++ {
			steps = append(steps, rd([]string{a, b}[i%2]))
		}
		if r.Intn(3) == 0 {
			// must fail and change nothing - whatever the data-modifying command is
			ws := [][]string{wr(a), wr(b),
				{"JSET", key, "jdoc", "a", strconv.Itoa(g.uniq())}, {"JDEL", key, "jdoc", "a"}, {"JDEL", key, "jdoc", "b.c"},
				{"EXPIRE", key, a, "100"}, {"PERSIST", key, a}, {"PDEL", key, "*"}, {"DROP", key},
				{"RENAME", key, "kren"}, {"RENAMENX", key, "kren"}, {"FLUSHDB"}}
			steps = append(steps, ws[r.Intn(len(ws))])
		}
		return scriptOp(ev, steps)
	}
	switch r.Intn(4) {
	case 0: // read - write - read back
		steps = [][]string{rd(a), wr(a), {"GET", key, a}}
	case 1: // move between ids
		steps = [][]string{{"GET", key, a}, {"SET", key, b, "STRING", fmt.Sprintf("m%d", g.uniq())}, {"DEL", key, a}, {"EXISTS", key, b}}
	case 2: // two reads that must see one instant
		steps = [][]string{{"GET", key, a}, {"GET", key, b}, {"GET", key, a}, {"GET", key, b}}
	default:
		steps = [][]string{wr(a), wr(b), rd(a), rd(b)}
	}
	return scriptOp(ev, steps)
}

// checkScript validates the reply of a script op against the log-ordered model.
// The script's own log entries are those appended while its connection's
// goroutine held the exclusive lock inside the op's window.
func (hc *histChecker) checkScript(op *Op, connID string) {
	w := hc.w
	lm := hc.lm
	lm.poll()
	hc.nChecked++
	steps := op.Cmd.Inner
	name := op.name()
	atomic := name == "eval" || name == "evalsha" || name == "evalro" || name == "evalrosha"
	readonly := name == "evalro" || name == "evalrosha"
	lo, hi := lm.posBefore(op.Invoke), lm.posThrough(op.Return)
	var own []int
	for j := lo; j < len(lm.entries) && j < hi+1; j++ {
		e := &lm.entries[j]
		if e.conn == connID && e.owner == "" && e.step >= op.Invoke && e.step <= op.Return {
			own = append(own, j)
		}
	}
	fail := func(format string, args ...interface{}) {
		w.violate(hc.class+"/script", "a%02d op%d %s %v -> %s (own log entries %v, window [%d,%d]): %s",
			op.Client, op.Idx, strings.ToUpper(name), steps, clipStr(op.Reply.String(), 160), own, lo, hi, fmt.Sprintf(format, args...))
	}
	claim := func() {
		for _, q := range own {
			lm.entries[q].owner = fmt.Sprintf("a%02d/op%d/script", op.Client, op.Idx)
			hc.acked[strings.Join(lm.entries[q].args, "\x00")] = true
		}
	}
	isWrite := func(st []string) bool {
		switch lower(st[0]) {
		case "set", "fset", "del", "expire", "persist", "pdel", "drop", "rename", "renamenx", "jset", "jdel", "flushdb":
			return true
		}
		return false
	}
	if readonly {
		if len(own) > 0 {
			fail("a read-only script appended to the log")
			return
		}
	}
	if atomic {
		for i := 1; i < len(own); i++ {
			if own[i] != own[i-1]+1 || lm.entries[own[i]].step != lm.entries[own[0]].step {
				fail("the script's writes are not one contiguous block of the log (another command's entry or lock section in between)")
				return
			}
		}
		cands := []int{}
		if len(own) > 0 {
			cands = append(cands, own[0])
		} else {
			for k := lo; k <= hi; k++ {
				cands = append(cands, k)
			}
		}
		var firstErr error
		for _, k := range cands {
			err := func() error {
				m := lm.states[k].clone()
				wi := 0
				for i, st := range steps {
					if readonly && isWrite(st) {
						// (which error is not the property's business: JDEL, for one, is refused as
						// "not supported in scripts"; that the dataset is unchanged is checked by the
						// served-state-equals-model(log) monitor after every step)
						if !op.Reply.isErr() {
							return fmt.Errorf("EVALRO step %d (%s) must fail, the script returned %s", i+1, st[0], clipStr(op.Reply.String(), 100))
						}
						return nil
					}
					m.nowHi = op.ReturnT
					r := m.apply(st, op.InvokeT)
					if r.undef {
						w.harnessErr("script step outside the modelled fragment: %v", st)
						return nil
					}
					if r.changed {
						if wi >= len(own) || !sameArgs(lm.entries[own[wi]].args, st) {
							return fmt.Errorf("step %d (%s) changes state but is not the script's log entry #%d", i+1, strings.Join(st, " "), wi+1)
						}
						wi++
					}
					if r.errReply {
						if !op.Reply.isErr() {
							return fmt.Errorf("step %d (%s) must fail but the script returned %s", i+1, strings.Join(st, " "), clipStr(op.Reply.String(), 100))
						}
						if wi != len(own) {
							return fmt.Errorf("script failed at step %d but logged %d writes, %d expected", i+1, len(own), wi)
						}
						return nil
					}
					if op.Reply.isErr() {
						continue
					}
					if op.Reply.T != '*' || len(op.Reply.A) != len(steps) {
						return fmt.Errorf("script reply has %d elements, want %d", len(op.Reply.A), len(steps))
					}
					if err := r.exp(op.Reply.A[i]); err != nil {
						return fmt.Errorf("step %d (%s): %v", i+1, strings.Join(st, " "), err)
					}
				}
				if op.Reply.isErr() {
					return fmt.Errorf("script reply is an error but every step succeeds in the model")
				}
				if wi != len(own) {
					return fmt.Errorf("script logged %d writes, the model expects %d", len(own), wi)
				}
				return nil
			}()
			if err == nil {
				claim()
				if len(cands) > 1 {
					hc.nWindows++
				}
				return
			}
			if firstErr == nil {
				firstErr = fmt.Errorf("at position %d: %v", k, err)
			}
		}
		fail("not explained as ONE step at any log position: %v", firstErr)
		return
	}
	// EVALNA: calls take effect one by one at non-decreasing positions
	p := lo
	wi := 0
	for i, st := range steps {
		limit := hi
		if wi < len(own) {
			limit = own[wi]
		}
		if isWrite(st) && wi < len(own) && sameArgs(lm.entries[own[wi]].args, st) {
			// this call may be the script's next log entry - unless its reply says otherwise
			// (the same call can occur twice in a script, one of them without effect)
			q := own[wi]
			asEntry := true
			if !op.Reply.isErr() && i < len(op.Reply.A) {
				if err := lm.entries[q].res.exp(op.Reply.A[i]); err != nil {
					asEntry = false
				}
			}
			if asEntry {
				wi++
				p = q + 1
				continue
			}
		}
		// a call that changes nothing (read, or a write without effect)
		found := false
		var lastErr error
		if op.Reply.isErr() && wi == len(own) {
			// the script failed: if this call can fail at a later position, that explains it
			for q := p; q <= hi; q++ {
				mm := lm.states[q].clone()
				if r := mm.apply(st, op.InvokeT); r.errReply {
					claim()
					return
				}
			}
		}
		for q := p; q <= limit; q++ {
			mm := lm.states[q].clone()
			mm.nowHi = op.ReturnT
			r := mm.apply(st, op.InvokeT)
			if r.undef {
				w.harnessErr("script step outside the modelled fragment: %v", st)
				return
			}
			if r.changed {
				lastErr = fmt.Errorf("at position %d it would change state, but the script logged no such entry", q)
				continue
			}
			if r.errReply {
				if op.Reply.isErr() && wi == len(own) {
					claim()
					return
				}
				lastErr = fmt.Errorf("at position %d it fails", q)
				continue
			}
			if !op.Reply.isErr() && i < len(op.Reply.A) {
				if err := r.exp(op.Reply.A[i]); err != nil {
					lastErr = err
					continue
				}
			}
			if op.Reply.isErr() {
				// it succeeds here; maybe a later position (or a later step) fails: keep the earliest
				found = true
				p = q
				break
			}
			found = true
			p = q
			break
		}
		if !found {
			fail("EVALNA step %d (%s): no position in [%d,%d] explains it: %v", i+1, strings.Join(st, " "), p, limit, lastErr)
			return
		}
	}
	if op.Reply.isErr() {
		// an error reply whose failing call we could not place: only accept if some call can
		// fail somewhere in the window (error replies carry no further information)
		for _, st := range steps {
			for q := lo; q <= hi; q++ {
				mm := lm.states[q].clone()
				if r := mm.apply(st, op.InvokeT); r.errReply {
					if wi == len(own) {
						claim()
						return
					}
				}
			}
		}
		fail("the script failed but no call can fail at any position of its window")
		return
	}
	if wi != len(own) {
		fail("the script logged %d writes, %d are explained by its calls", len(own), wi)
		return
	}
	claim()
	if hi > lo {
		hc.nWindows++
	}
}

func runC18(w *World) {
	w.drawWeights()
	w.drawNet(w.knob)
	w.weights[akFault] = 0
	w.cut = cutMode(w.knob("cut", 2))
	n := w.addNode("n1", "10.0.0.1", 9851)
	inst := n.start()
	if !inst.ready() {
		w.harnessErr("node did not start")
		return
	}
	hc := newHistChecker(w, inst, newModel(), "C18")
	hc.exact = false
	w.stepHooks = append(w.stepHooks, hc.stepHook, lockDiscipline(w, inst, "C18"), auditHook(w, func() *Inst { return n.inst }, "C18"))
	rc := &restartCtx{w: w, n: n, class: "C18", acked: map[string]bool{}, hc: hc}

	nOther := 1 + w.knob("others", 3)
	nscripts := []int{3, 6, 10}[w.knob("nscripts", 3)]
	if w.deep() && w.knob("deep", 3) == 0 {
		nscripts = 25
	}
	mk := func(client int) *genCfg {
		g := defaultGenCfg(client)
		g.keys = []string{"k1"}
		g.freeIDs = []string{"a", "b"}
		g.jsonIDs, g.featIDs = nil, nil
		g.exVals = nil
		g.wExpire, g.wJSON, g.wMulti = 0, 0, 1
		g.noFlush = true
		g.wBad = 4
		return g
	}
	var clients []*Actor
	sprog := w.program("scripts", func(r *rand.Rand) []Cmd {
		g := mk(1)
		var p []Cmd
		// a JSON document for the read-only scripts' JSET / JDEL attempts
		p = append(p, Cmd{Args: []string{"SET", "k1", "jdoc", "STRING", `{"a":1,"b":{"c":2}}`}})
		for i := 0; i < nscripts; i++ {
			p = appendScript(p, r, genScript(r, g))
			if r.Intn(3) == 0 {
				p = append(p, g.cmd(r))
			}
		}
		return p
	})
	sa := w.addActor(n, "127.0.0.1:50001", sprog)
	clients = append(clients, sa)
	for i := 0; i < nOther; i++ {
		i := i
		prog := w.program(fmt.Sprintf("other%d", i+1), func(r *rand.Rand) []Cmd {
			g := mk(i + 2)
			g.wRead, g.wWrite = 8, 10
			return g.program(r, nscripts*2)
		})
		clients = append(clients, w.addActor(n, simAddr(fmt.Sprintf("127.0.0.1:%d", 50002+i)), prog))
	}
	for _, a := range clients {
		a := a
		a.onReply = func(op *Op) {
			if op.Cmd.Tag == "steps" {
				rc.hc.checkScript(op, a.end.c.name)
			} else {
				rc.hc.onReply(op, a.end.c.name)
			}
		}
	}
	allDone := func() bool {
		for _, a := range clients {
			if !a.done() {
				return false
			}
		}
		return true
	}
	w.RunChaos(nscripts*(nOther+1)*300, allDone)
	if !w.failed() && !allDone() {
		w.Drain(30*time.Second, allDone)
	}
	w.Sleep(200 * time.Millisecond)
	if !w.failed() && !allDone() {
		w.harnessErr("clients did not finish")
	}
	rc.hc.finish(nil)
	overl := 0
	for _, op := range sa.ops {
		if op.Cmd.Tag != "steps" || op.Return < 0 {
			continue
		}
		for _, o := range clients[1:] {
			for _, x := range o.ops {
				if x.Return >= 0 && x.Invoke < op.Return && op.Invoke < x.Return {
					overl++
				}
			}
		}
	}
	w.stat("c18.script_overlaps", overl)
	w.stat("c18.ops_checked", rc.hc.nChecked)
	w.nontriv = overl >= 2
	// every write a script made must survive a restart (crash right now)
	if !w.failed() && w.knob("restart", 2) == 1 {
		rc.stopAndRestart(w.knob("clean", 2) == 1)
	}
	// sandbox probe (fixed probe, not simulation): enumerate everything reachable
	// from the globals of the pooled interpreters
	if !w.failed() {
		sandboxProbe(w, n)
	}
	if !w.failed() {
		modeRaceProbe(w, n)
	}
	var sm []string
	for i, op := range sa.ops {
		if i < 6 {
			sm = append(sm, fmt.Sprintf("[%d,%d] %s %v -> %s", op.Invoke, op.Return, op.Cmd.Args[0], op.Cmd.Inner, clipStr(op.Reply.String(), 80)))
		}
	}
	w.sample = map[string]interface{}{"seed": w.seed, "interfering_clients": nOther, "script_overlaps": overl, "scripts": sm}
}

var luaAllowed = map[string]bool{}

func init() {
	add := func(prefix string, names ...string) {
		for _, n := range names {
			luaAllowed[prefix+n] = true
		}
	}
	add("", "_G", "_VERSION", "_GOPHER_LUA_VERSION", "tonumber", "tostring", "table", "math", "string", "os", "json", "tile38")
	add("os.", "clock", "difftime")
	add("json.", "encode", "decode")
	add("tile38.", "call", "pcall", "error_reply", "status_reply", "sha1hex", "distance_to")
	add("table.", "concat", "insert", "maxn", "remove", "sort", "getn")
	add("math.", "abs", "acos", "asin", "atan", "atan2", "ceil", "cos", "cosh", "deg", "exp", "floor", "fmod", "frexp", "huge",
		"ldexp", "log", "log10", "max", "min", "mod", "modf", "pi", "pow", "rad", "random", "randomseed", "sin", "sinh", "sqrt", "tan", "tanh")
	add("string.", "byte", "char", "dump", "find", "format", "gfind", "gmatch", "gsub", "len", "lower", "match", "rep", "reverse", "sub", "upper",
		"__index") // the string metatable's self reference
}

func sandboxProbe(w *World, n *Node) {
	ob := newObserver(w, n)
	// 1. new globals cannot be created; per-call tables do not survive
	v, ok := ob.do("EVAL", "leak = 1 return 1", "0")
	if !ok {
		return
	}
	if !v.isErr() {
		w.violate("C18/sandbox", "a script created a global variable: reply %s", v.String())
		return
	}
	if _, ok = ob.do("EVAL", "return {KEYS[1], ARGV[1]}", "1", "secretkey", "secretarg"); !ok {
		return
	}
	enumerate := func(when string) bool {
		w.Settle()
		srv := n.inst.srv
		pool := srv.luapool
		pool.m.Lock()
		states := append([]*lua.LState(nil), pool.saved...)
		pool.m.Unlock()
		if len(states) == 0 {
			w.harnessErr("no pooled interpreter to inspect")
			return false
		}
		for _, L := range states {
			var names []string
			seen := map[*lua.LTable]bool{}
			var walk func(prefix string, t *lua.LTable, depth int)
			walk = func(prefix string, t *lua.LTable, depth int) {
				if seen[t] || depth > 3 {
					return
				}
				seen[t] = true
				t.ForEach(func(k, v lua.LValue) {
					name := prefix + k.String()
					names = append(names, name)
					if sub, ok := v.(*lua.LTable); ok {
						walk(name+".", sub, depth+1)
					}
					if f, ok := v.(*lua.LFunction); ok && !f.IsG && f.Env != nil {
						_ = f
					}
				})
			}
			g := L.Get(lua.GlobalsIndex).(*lua.LTable)
			walk("", g, 0)
			sort.Strings(names)
			for _, nm := range names {
				if !luaAllowed[nm] {
					w.violate("C18/sandbox", "%s: the global environment of a pooled (idle) interpreter contains %q, which is not on the documented allow-list", when, nm)
					return false
				}
			}
			for nm := range luaAllowed {
				if !contains(names, nm) && nm != "_G" {
					// a missing allowed name is not a sandbox breach; only count it
					w.stat("c18.allowed_names_missing", 1)
				}
			}
			w.stat("c18.globals_enumerated", len(names))
		}
		return true
	}
	// 1b. calls that fail before or while they run, and per-object filter scripts (WHEREEVAL):
	// whatever they were given (KEYS, ARGV, the object under evaluation) must be gone from the
	// interpreter when it goes back to the pool - also on the error paths
	ob.do("SET", "sbx", "a", "FIELD", "speed", "90", "POINT", "1", "1")
	ob.do("SET", "sbx", "b", "FIELD", "speed", "5", "OBJECT", `{"type":"Feature","geometry":{"type":"Point","coordinates":[2,2]},"properties":{"driver":"alice"}}`)
	for _, c := range [][]string{
		{"EVALSHA", "0123456789abcdef0123456789abcdef01234567", "1", "secretkey", "secretarg"}, // unknown hash
		{"EVAL", "return (", "1", "secretkey", "secretarg"},                                    // does not compile
		{"EVAL", "return nosuchfunction(KEYS[1])", "1", "secretkey", "secretarg"},              // fails while running
		{"EVALRO", "return tile38.call('SET', KEYS[1], 'x', 'POINT', 1, 1)", "1", "sbx"},       // refused call
		{"SCAN", "sbx", "WHEREEVAL", "return FIELDS.speed > 10", "0"},
		{"SCAN", "sbx", "WHEREEVAL", "return FIELDS.route.region == ARGV[1]", "1", "secretarg"}, // indexes a missing table
		{"SCAN", "sbx", "WHEREEVAL", "return nosuchfunction(ID)", "0"},
		{"SCAN", "sbx", "WHEREEVAL", "return PROPERTIES ~= nil and PROPERTIES.driver == 'alice'", "0"},
		{"SCAN", "sbx", "WHEREEVAL", "return (", "0"},
	} {
		if _, ok = ob.do(c...); !ok {
			return
		}
		// (the next successful call on the same interpreter would wipe the traces: look now)
		if !enumerate("after [" + clipStr(strings.Join(c, " "), 90) + "]") {
			return
		}
	}
	w.stat("probe.sandbox_error_paths", 1)
	// 1b. KEYS and ARGV are the call's own: what a script stores into them is gone with the call,
	// also when the call had no keys and no arguments (in every script variant)
	for _, ev := range []string{"EVAL", "EVALNA", "EVALRO"} {
		if _, ok := ob.do(ev, "ARGV[#ARGV+1] = 'left-behind' KEYS[#KEYS+1] = 'left-behind' return 1", "0"); !ok {
			return
		}
		for _, ev2 := range []string{"EVAL", "EVALRO"} {
			v, ok := ob.do(ev2, "return {#KEYS, #ARGV, tostring(KEYS[1]), tostring(ARGV[1])}", "0")
			if !ok {
				return
			}
			if got := v.String(); v.isErr() || len(v.A) != 4 || v.A[0].String() != ":0" || v.A[1].String() != ":0" || v.A[2].S != "nil" || v.A[3].S != "nil" {
				w.violate("C18/sandbox", "after an %s without keys and arguments stored values into its KEYS and ARGV, the next %s without keys and arguments sees {#KEYS, #ARGV, KEYS[1], ARGV[1]} = %s", ev, ev2, clipStr(got, 160))
				return
			}
		}
	}
	// 2. more scripts in flight than the pool holds: every interpreter - also one created on
	// demand - must refuse new globals. The scripts' inner calls are held at the lock so that
	// all of them are in flight at once.
	n.inst.lock.holdRole = "luacall"
	var piled []*Actor
	for i := 0; i < 8; i++ {
		a := w.addActor(n, simAddr(fmt.Sprintf("127.0.0.1:%d", 52000+i)), []Cmd{{Args: []string{"EVALNA",
			"local v = tile38.call('EXISTS', 'k1', 'a') zzleak = ARGV[1] return 1", "0", fmt.Sprintf("secret%d", i)}}})
		piled = append(piled, a)
	}
	w.Settle()
	inflight := 0
	for _, r := range n.inst.lock.pending {
		if r.role == "luacall" {
			inflight++
		}
	}
	w.stat("c18.scripts_piled_up", inflight)
	n.inst.lock.holdRole = ""
	w.Drain(10*time.Second, func() bool {
		for _, a := range piled {
			if len(a.ops) == 0 || a.ops[0].Return < 0 {
				return false
			}
		}
		return true
	})
	for _, a := range piled {
		if len(a.ops) > 0 && a.ops[0].Return >= 0 && !a.ops[0].Reply.isErr() {
			w.violate("C18/sandbox", "with %d scripts in flight at once one of them created a global variable (reply %s): interpreters created on demand are not sealed", inflight, a.ops[0].Reply.String())
			return
		}
	}
	if !enumerate("after scripts from more connections than the pool holds") {
		return
	}
	w.stat("probe.sandbox_probe_runs", 1)
}

// modeRaceProbe (a directed schedule, like the pile-up in sandboxProbe): one call of an EVALNA
// script is one step - the decision "may this server be written to" and the write belong to the
// same critical section. The script's inner call is held at the lock, another connection's
// READONLY yes is granted and acknowledged first, then the call is let through: it must be refused.
func modeRaceProbe(w *World, n *Node) {
	inst := n.inst
	admin := newObserver(w, n)
	admin.a.from = "127.0.0.1:52200"
	inst.lock.holdRole = "luacall"
	sc := w.addActor(n, "127.0.0.1:52201", []Cmd{{Args: []string{"EVALNA", "return tile38.call('SET', 'race', 'x', 'POINT', 1, 1)", "0"}}})
	w.Settle()
	held := 0
	for _, r := range inst.lock.pending {
		if r.role == "luacall" {
			held++
		}
	}
	v, ok := admin.do("READONLY", "yes")
	inst.lock.holdRole = ""
	if !ok || v.String() != "+OK" {
		if !w.failed() {
			w.harnessErr("READONLY yes failed in the mode-race probe: %s", v.String())
		}
		return
	}
	w.Drain(10*time.Second, func() bool { return len(sc.ops) > 0 && sc.ops[0].Return >= 0 })
	w.Settle()
	if w.failed() {
		return
	}
	if len(sc.ops) == 0 || sc.ops[0].Return < 0 {
		w.harnessErr("the script of the mode-race probe got no reply")
		return
	}
	if held > 0 {
		w.stat("probe.script_call_held_across_mode_switch", 1)
		srv := inst.srv
		_, exists := srv.cols.Get("race")
		if !sc.ops[0].Reply.isErr() || exists {
			w.violate("C18/step", "an EVALNA script's SET was queued at the lock when READONLY yes was granted and acknowledged; the call then answered %s and the object exists=%v: the read-only decision and the write are not one step",
				clipStr(sc.ops[0].Reply.String(), 100), exists)
			return
		}
	}
	if v, ok := admin.do("READONLY", "no"); !ok || v.String() != "+OK" {
		if !w.failed() {
			w.harnessErr("READONLY no failed in the mode-race probe: %s", v.String())
		}
	}
}
