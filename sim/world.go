package server

// World: one run of one property configuration = Sim + generator + replay record.

import (
	"encoding/json"
	"fmt"
	"hash/fnv"
	"math/rand"
	"os"
	"path/filepath"
	"runtime"
	"runtime/debug"
	"sort"
	"strings"
	"testing"
	"testing/synctest"
	"time"

	"github.com/tidwall/tile38/internal/endpoint"
	tlog "github.com/tidwall/tile38/internal/log"
)

// ReplayFile is everything needed to re-execute a run exactly.
type ReplayFile struct {
	Property string           `json:"property"`
	Seed     int64            `json:"seed"`
	Tier     string           `json:"tier"`
	Knobs    map[string]int   `json:"knobs"`
	Programs map[string][]Cmd `json:"programs"`
	Choices  []uint32         `json:"choices"`
	// ChoiceSeed: when Choices is nil, draw the schedule from this seed
	// (used while minimising: fixed programs, fresh schedule)
	ChoiceSeed    int64 `json:"choice_seed,omitempty"`
	MinimisedFrom int   `json:"minimised_from_cmds,omitempty"`
	Executions    int   `json:"minimiser_executions,omitempty"`
	// informational
	Violation string   `json:"violation,omitempty"`
	Class     string   `json:"class,omitempty"`
	Trace     []string `json:"trace,omitempty"`
}

type RunResult struct {
	Seed       int64          `json:"seed"`
	Class      string         `json:"class,omitempty"`
	Msg        string         `json:"msg,omitempty"`
	Step       int            `json:"step,omitempty"`
	HarnessErr string         `json:"harness_err,omitempty"`
	Stats      map[string]int `json:"stats"`
	SchedSig   uint64         `json:"sched_sig"`
	NonTrivial bool           `json:"nontrivial"`
	LogHash    uint64         `json:"log_hash"`
	VirtualMs  int64          `json:"virtual_ms"`
	Steps      int            `json:"steps"`
	Sample     interface{}    `json:"sample,omitempty"`
	Leaked     bool           `json:"leaked,omitempty"`
	rec        *ReplayFile
	log        []string
}

type World struct {
	*Sim
	prop     string
	tier     string
	seed     int64
	gen      *rand.Rand
	rec      *ReplayFile // being recorded
	rep      *ReplayFile // being replayed (nil in normal mode)
	nontriv  bool
	sample   interface{}
	sigExtra string
	// post: checks that must run outside the bubble (real timers), after the run
	post []func()
}

// deep reports whether the thorough tier is running: configurations then draw from wider
// ranges (longer programs, more clients, bigger datasets, more faults).
func (w *World) deep() bool { return w.tier == "thorough" }

// knob draws (or replays) a named integer in [0,n).
func (w *World) knob(name string, n int) int {
	if w.rep != nil {
		v, ok := w.rep.Knobs[name]
		if !ok {
			v = 0
		}
		if n > 0 && v >= n {
			v = v % n
		}
		w.rec.Knobs[name] = v
		return v
	}
	v := 0
	if n > 1 {
		v = w.gen.Intn(n)
	}
	w.rec.Knobs[name] = v
	return v
}

// program generates (or replays) a named client program.
func (w *World) program(name string, gen func(r *rand.Rand) []Cmd) []Cmd {
	if w.rep != nil {
		p := w.rep.Programs[name]
		w.rec.Programs[name] = p
		// keep the generator stream aligned for later knobs is not needed:
		// in replay mode nothing is drawn from the generator.
		return p
	}
	p := gen(w.gen)
	w.rec.Programs[name] = p
	return p
}

type propDef struct {
	id  string
	run func(w *World)
}

var props = map[string]*propDef{}

func registerProp(id string, run func(w *World)) { props[id] = &propDef{id: id, run: run} }

var hooksInstalled bool

type fatalFilter struct{}

func (fatalFilter) Write(p []byte) (int, error) {
	if strings.Contains(string(p), "[FATA]") {
		os.Stderr.Write(append([]byte("T38FATAL: "), p...))
	}
	return len(p), nil
}

func setupProcess() {
	if hooksInstalled {
		return
	}
	hooksInstalled = true
	installServerHooks()
	endpoint.VerifHTTPDial = simHTTPDial
	endpoint.VerifHTTPBeforeSend = func() {
		if s := curSim; s != nil {
			s.mu.Lock()
			s.whoLocked()
			s.mu.Unlock()
		}
	}
	tlog.SetOutput(fatalFilter{})
	tlog.SetLevel(1)
	if os.Getenv("VERIF_T38LOG") != "" {
		tlog.SetOutput(os.Stderr)
		tlog.SetLevel(3)
	}
}

var shmBase = func() string {
	b := "/dev/shm"
	if _, err := os.Stat(b); err != nil {
		b = os.TempDir()
	}
	return filepath.Join(b, fmt.Sprintf("verif-sim-%d", os.Getpid()))
}()

// runOnce executes one run inside a fresh bubble.
func runOnce(t *testing.T, prop string, tier string, seed int64, rep *ReplayFile) *RunResult {
	setupProcess()
	pd := props[prop]
	if pd == nil {
		return &RunResult{Seed: seed, HarnessErr: "unknown property " + prop}
	}
	res := &RunResult{Seed: seed}
	base := filepath.Join(shmBase, fmt.Sprintf("%s-%d", prop, seed))
	os.RemoveAll(base)
	if err := os.MkdirAll(base, 0700); err != nil {
		res.HarnessErr = err.Error()
		return res
	}
	defer os.RemoveAll(base)

	// no garbage collection while a run is in progress (GC workers perturb the
	// order in which runnable goroutines are picked); collect between runs
	oldGC := debug.SetGCPercent(-1)
	debug.SetMemoryLimit(6 << 30)
	defer func() {
		debug.SetGCPercent(oldGC)
		runtime.GC()
	}()
	var w *World
	body := func() {
		var ch *chooser
		if rep != nil && rep.Choices == nil && rep.ChoiceSeed != 0 {
			ch = newChooser(rep.ChoiceSeed)
		} else if rep != nil && rep.Choices == nil && rep.Programs == nil {
			// seed-only replay (e.g. a run that killed its worker process)
			rep = nil
			ch = newChooser(seed*2654435761 + 12345)
		} else if rep != nil {
			ch = newReplayChooser(rep.Choices)
		} else {
			ch = newChooser(seed*2654435761 + 12345)
		}
		sim := newSim(ch)
		sim.baseDir = base
		w = &World{Sim: sim, prop: prop, tier: tier, seed: seed, rep: rep,
			gen: rand.New(rand.NewSource(seed ^ 0x5eed5eed)),
			rec: &ReplayFile{Property: prop, Seed: seed, Tier: tier, Knobs: map[string]int{}, Programs: map[string][]Cmd{}}}
		curSim = sim
		func() {
			defer func() {
				if r := recover(); r != nil {
					sim.harnessErr("panic in harness: %v\n%s", r, debug.Stack())
				}
			}()
			pd.run(w)
		}()
		w.teardown()
	}
	func() {
		defer func() {
			if r := recover(); r != nil {
				msg := fmt.Sprint(r)
				if strings.Contains(msg, "deadlock") || strings.Contains(msg, "blocked goroutines") {
					res.Leaked = true
					return
				}
				res.HarnessErr = "panic around bubble: " + msg
			}
		}()
		synctest.Test(t, func(t *testing.T) { body() })
	}()
	curSim = nil
	if w == nil {
		if res.HarnessErr == "" {
			res.HarnessErr = "run did not start"
		}
		return res
	}
	s := w.Sim
	for _, f := range w.post {
		if !s.failed() {
			f()
		}
	}
	if s.viol != nil {
		res.Class, res.Msg, res.Step = s.viol.Class, s.viol.Msg, s.viol.Step
	}
	if s.herr != nil && res.HarnessErr == "" {
		res.HarnessErr = s.herr.Error()
	}
	res.Stats = s.stats
	res.SchedSig = s.schedSig
	if w.sigExtra != "" {
		h := fnv.New64a()
		h.Write([]byte(w.sigExtra))
		res.SchedSig = h.Sum64()
	}
	res.NonTrivial = w.nontriv
	res.LogHash = s.logHash()
	res.VirtualMs = int64(s.endVirtual / time.Millisecond)
	res.Steps = s.step
	res.Sample = w.sample
	w.rec.Choices = s.ch.rec
	res.rec = w.rec
	res.log = s.log
	return res
}

// teardown retires every instance and lets leaked goroutines finish.
func (w *World) teardown() {
	s := w.Sim
	s.endVirtual = s.now()
	s.logOn = false
	s.stepHooks = nil
	for _, a := range s.actors {
		a.paused = true
	}
	for _, n := range s.nodeSeq {
		if n.inst != nil && !n.inst.dead {
			n.inst.retire()
		}
	}
	s.mu.Lock()
	cs := append([]*simConn(nil), s.conns...)
	for _, l := range s.addrs {
		l.closed = true
		l.cond.Broadcast()
	}
	s.mu.Unlock()
	for _, c := range cs {
		c.kill()
	}
	for i := 0; i < 40; i++ {
		synctest.Wait()
		s.runZombies()
		for _, z := range s.zombies {
			z.reap()
		}
		time.Sleep(300 * time.Millisecond)
		all := true
		for _, z := range s.zombies {
			if !z.stopped {
				all = false
			}
		}
		if all && i >= 2 {
			break
		}
	}
	for i := 0; i < 6; i++ {
		synctest.Wait()
		s.runZombies()
		for _, z := range s.zombies {
			z.reap()
		}
		time.Sleep(500 * time.Millisecond)
	}
	s.mu.Lock()
	for d, inst := range instByDir {
		if inst.node.sim == s {
			delete(instByDir, d)
		}
	}
	s.mu.Unlock()
}

// ---------------------------------------------------------------------------
// helpers shared by property files

func sortedKeys(m map[string]int) []string {
	ks := make([]string, 0, len(m))
	for k := range m {
		ks = append(ks, k)
	}
	sort.Strings(ks)
	return ks
}

func mustJSON(v interface{}) string {
	b, _ := json.Marshal(v)
	return string(b)
}
