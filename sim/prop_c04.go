package server

// C04 - a torn or padded log tail is repaired and loses nothing but the torn command.
// Fault space = the byte offset at which the log ends; enumerated per generated log.

import (
	"fmt"
	"math/rand"
	"os"
	"path/filepath"
	"sort"
	"strings"
	"time"
)

func init() { registerProp("C04", runC04) }

const c04Chunks = 64 // runs that share one generated log

func c04Log(r *rand.Rand, style int) []Cmd {
	g := defaultGenCfg(4)
	g.keys = []string{"k1", "k2", "key with space"}
	g.exVals = []string{"1000", "5000"}
	g.noFlush = true
	bin := func(n int) string {
		b := make([]byte, n)
		for i := range b {
			switch r.Intn(8) {
			case 0:
				b[i] = 0
			case 1:
				b[i] = '\r'
			case 2:
				b[i] = '\n'
			case 3:
				b[i] = 0xff
			case 4:
				b[i] = '*'
			case 5:
				b[i] = '$'
			default:
				b[i] = byte('a' + r.Intn(26))
			}
		}
		// must not look like JSON to stay a plain string
		if len(b) > 0 && (b[0] == '{' || b[0] == '[') {
			b[0] = 'x'
		}
		return string(b)
	}
	n := []int{12, 40, 150, 8}[style]
	bigAt := -1
	if style == 3 {
		bigAt = r.Intn(n) // every log of this style holds at least one value larger than the read buffer
	}
	var p []Cmd
	for i := 0; i < n; i++ {
		x := r.Intn(20)
		if i == bigAt {
			x = 5
		}
		switch {
		case x < 5:
			v := "b" + bin(1+r.Intn(40))
			if r.Intn(3) == 0 {
				// a value that holds, byte for byte, complete protocol frames: whoever looks for
				// command boundaries by content rather than by framing finds some inside it
				frame := []string{"*1\r\n$4\r\nPING\r\n", "*0\r\n", string(encodeCmd([]string{"SET", "k1", "ghost", "STRING", "boo"})),
					"*2\r\n$4\r\nDROP\r\n$2\r\nk1\r\n"}[r.Intn(4)]
				v += frame + bin(r.Intn(12))
			}
			p = append(p, Cmd{Args: []string{"SET", pick(r, g.keys), pick(r, g.freeIDs), "STRING", v}})
		case x < 6 && style == 3:
			v := "B" + bin(66000+r.Intn(70000))
			if r.Intn(2) == 0 {
				// a long run of NUL bytes inside a value: whole read blocks of the loader are zero
				v = "Z" + bin(r.Intn(300)) + strings.Repeat("\x00", 132000+r.Intn(140000)) + bin(1+r.Intn(300))
			}
			p = append(p, Cmd{Args: []string{"SET", "k1", "big" + fmt.Sprint(r.Intn(2)), "STRING", v}})
		case x < 8:
			p = append(p, hookCmd(r, g))
		default:
			c := g.cmd(r)
			switch lower(c.Args[0]) {
			case "get", "fget", "exists", "fexists", "ttl", "type", "keys", "scan", "jget", "hooks", "chans":
				c = g.writeCmd(r)
			}
			p = append(p, c)
		}
	}
	return p
}

// c04Offsets chooses the cut offsets for a log of length L with command ends.
func c04Offsets(L int, ends []int, r *rand.Rand) (offs []int, exhaustive bool) {
	if L+1 <= c04Chunks*40 {
		for c := 0; c <= L; c++ {
			offs = append(offs, c)
		}
		return offs, true
	}
	seen := map[int]bool{}
	add := func(c int) {
		if c >= 0 && c <= L && !seen[c] {
			seen[c] = true
			offs = append(offs, c)
		}
	}
	for _, e := range ends {
		for d := -2; d <= 2; d++ {
			add(e + d)
		}
	}
	for m := 0xFFFF; m <= L+8; m += 0xFFFF {
		for d := -8; d <= 8; d++ {
			add(m + d)
		}
	}
	add(0)
	add(L)
	for len(offs) < c04Chunks*24 {
		add(r.Intn(L + 1))
	}
	sort.Ints(offs)
	return offs, false
}

func runC04(w *World) {
	logSeed := w.seed / c04Chunks
	chunk := int(w.seed % c04Chunks)
	lr := rand.New(rand.NewSource(logSeed*7919 + 17))
	style := int(logSeed % 4)
	prog := w.program("log", func(_ *rand.Rand) []Cmd { return c04Log(lr, style) })
	// produce the log by running the commands against the model only; what the
	// server would have logged is exactly the commands that change state
	m := newModel()
	var raw []byte
	var ends []int
	for _, c := range prog {
		r := m.apply(c.Args, 0)
		if r.undef {
			w.harnessErr("generated log command outside the model: %v", c.Args)
			return
		}
		if r.changed {
			raw = append(raw, encodeCmd(c.Args)...)
			ends = append(ends, len(raw))
		}
	}
	L := len(raw)
	variant := w.knob("variant", 3) // 0: plain cuts, 1: NUL runs at boundaries (no cut), 2: NUL runs + cuts
	padded := raw
	pends := ends
	if variant != 0 && len(ends) > 0 {
		pr := rand.New(rand.NewSource(logSeed*31 + int64(variant)))
		var nb []byte
		pends = nil
		prev := 0
		// zero runs of a few bytes, and - in some logs - of lengths around the block sizes a
		// loader or a repair pass may work in (4096, 8192, 65535, 65536 and their neighbours)
		zrun := func(max int) int {
			if pr.Intn(3) == 0 {
				return []int{4094, 4095, 4096, 4097, 8191, 8192, 12287, 65534, 65535, 65536, 131070}[pr.Intn(11)]
			}
			return 1 + pr.Intn(max)
		}
		longRuns := pr.Intn(3) == 0
		for _, e := range ends {
			if pr.Intn(4) == 0 {
				if longRuns && pr.Intn(3) == 0 {
					nb = append(nb, make([]byte, zrun(9))...)
				} else {
					nb = append(nb, make([]byte, 1+pr.Intn(9))...)
				}
			}
			nb = append(nb, raw[prev:e]...)
			pends = append(pends, len(nb))
			prev = e
		}
		if pr.Intn(2) == 0 {
			if longRuns {
				nb = append(nb, make([]byte, zrun(20))...)
			} else {
				nb = append(nb, make([]byte, 1+pr.Intn(20))...)
			}
		}
		padded = nb
		L = len(padded)
	}
	offs, exhaustive := c04Offsets(L, pends, rand.New(rand.NewSource(logSeed+99)))
	if variant == 1 {
		offs, exhaustive = []int{L}, true
		if chunk != 0 {
			offs = nil
		}
	}
	w.cut = cutWhole
	w.weights[akFault] = 0
	checked, inside := 0, 0
	for i := chunk; i < len(offs) && !w.failed(); i += c04Chunks {
		c := offs[i]
		if variant == 1 {
			c = L
		}
		// what must survive: every command that is complete before the cut
		boundary := 0
		k := 0
		for j, e := range pends {
			if e <= c {
				boundary = e
				k = j + 1
			}
		}
		// trailing NULs after the last complete command and before the cut are not a torn command
		// zero padding that follows the last complete command is skipped by the
		// loader, not torn: it stays in the file
		expectLen := boundary
		for expectLen < c && padded[expectLen] == 0 {
			expectLen++
		}
		if c > expectLen {
			inside++
		}
		name := fmt.Sprintf("t%03d", i)
		n := w.addNode(name, "10.0.1.1", 9000+i)
		n.dir = n.freshDir()
		// every fourth server is configured read-only: the repair of its log is the same
		readOnly := (i/c04Chunks+int(w.seed))%4 == 3
		if readOnly {
			n.config["read_only"] = true
			w.stat("c04.cuts_on_a_read_only_server", 1)
		}
		os.WriteFile(filepath.Join(n.dir, "appendonly.aof"), padded[:c], 0600)
		os.WriteFile(filepath.Join(n.dir, "config"), []byte(mustJSON(n.config)), 0600)
		inst := n.start()
		what := fmt.Sprintf("log of %d bytes (%d commands, variant %d) cut at byte %d (last complete command ends at %d)", L, len(pends), variant, c, boundary)
		if inst.stopped || !inst.ready() {
			w.violate("C04/start", "%s: the server does not start: %v", what, inst.serveErr)
			break
		}
		want := newModel()
		for _, e := range mustParse(padded[:boundary]) {
			want.apply(e.args, w.now())
		}
		_ = k
		if err := compareDump(want, inst.dump(), true); err != nil {
			w.violate("C04/state", "%s: recovered state is not the state of the complete commands: %v", what, err)
			break
		}
		if fi, err := os.Stat(filepath.Join(n.dir, "appendonly.aof")); err != nil || int(fi.Size()) != expectLen {
			sz := -1
			if fi != nil {
				sz = int(fi.Size())
			}
			w.violate("C04/length", "%s: after start-up the file has %d bytes, want %d", what, sz, expectLen)
			break
		}
		// it must keep appending: one more acknowledged write, kill, start again
		ob := newObserver(w, n)
		if readOnly {
			if v, ok := ob.do("READONLY", "no"); !ok || v.String() != "+OK" {
				if !w.failed() {
					w.violate("C04/append", "%s: READONLY no is answered %s", what, v.String())
				}
				break
			}
		}
		extra := []string{"SET", "k9", "extra", "POINT", "1.5", fmt.Sprintf("%d.25", 2+i%80)}
		v, ok := ob.do(extra...)
		if !ok || v.String() != "+OK" {
			if !w.failed() {
				w.violate("C04/append", "%s: a write after the repair is answered %s", what, v.String())
			}
			break
		}
		n.crash()
		inst2 := n.start()
		if inst2.stopped || !inst2.ready() {
			w.violate("C04/restart", "%s: after one more write and a crash the server does not start: %v", what, inst2.serveErr)
			break
		}
		want.apply(extra, w.now())
		if err := compareDump(want, inst2.dump(), true); err != nil {
			w.violate("C04/restart", "%s: state after one more write, a crash and a second start: %v", what, err)
			break
		}
		inst2.retire()
		for _, a := range w.actors {
			a.paused = true
		}
		w.Sleep(10 * time.Millisecond)
		checked++
	}
	w.stat("c04.cuts_checked", checked)
	w.stat("c04.cuts_inside_a_command", inside)
	if exhaustive {
		w.stat("c04.chunks_of_exhaustively_cut_logs", 1)
	} else {
		w.stat("c04.chunks_of_sampled_logs", 1)
	}
	w.nontriv = inside > 0 || (variant == 1 && checked > 0)
	w.sigExtra = fmt.Sprintf("log%d/chunk%d/v%d", logSeed, chunk, variant)
	var first []string
	for i, c := range prog {
		if i < 4 {
			first = append(first, clipStr(strings.ToValidUTF8(c.String(), "?"), 80))
		}
	}
	w.sample = map[string]interface{}{"seed": w.seed, "log_seed": logSeed, "log_bytes": L, "log_commands": len(pends), "variant": variant,
		"cuts_in_this_run": checked, "all_offsets_enumerated_for_this_log": exhaustive, "first_commands": first}
}

func mustParse(b []byte) []logEntry {
	e, _, _ := parseLog(b)
	return e
}
