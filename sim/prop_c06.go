package server

// C06 - a caught-up follower is an exact copy of its leader.

import (
	"fmt"
	"math/rand"
	"os"
	"path/filepath"
	"strings"
	"time"
)

func init() { registerProp("C06", runC06) }

func c06LeaderProg(r *rand.Rand, client, n int, big bool) []Cmd {
	g := defaultGenCfg(client)
	g.keys = []string{"k1", "k2", "k3"}
	g.exVals = []string{"1000", "5000"} // expiry interplay is C14's subject
	g.wRead = 2
	g.bigValues = false
	var p []Cmd
	for i := 0; i < n; i++ {
		switch x := r.Intn(20); {
		case x < 2:
			p = append(p, hookCmd(r, g))
		case x < 3:
			p = appendScript(p, r, scriptCmd(r, g))
		case x < 5:
			// pub/sub traffic: the leader forwards published messages over its replication
			// connections too, in between the pieces of the log
			p = append(p, Cmd{Args: []string{"PUBLISH", []string{"news", "ch0", "zz"}[r.Intn(3)], fmt.Sprintf("m%d-", g.uniq()) + strings.Repeat("p", r.Intn(3000))}})
		case x < 9 && big:
			p = append(p, Cmd{Args: []string{"SET", "kbig", fmt.Sprintf("b%d", r.Intn(6)), "STRING", fmt.Sprintf("v%d-", g.uniq()) + strings.Repeat("x", 50000+r.Intn(30000))}})
		default:
			p = append(p, g.cmd(r))
		}
	}
	return p
}

func runC06(w *World) {
	w.drawWeights()
	w.drawNet(w.knob)
	w.cut = cutMode(w.knob("cut", 2))
	for i := 0; i < 3; i++ {
		w.addWebhook(simAddr(fmt.Sprintf("hook%d.sim:80", i)), nil)
	}
	L := w.addNode("n1", "10.0.0.1", 9851)
	F := w.addNode("n2", "10.0.0.2", 9851)
	linst := L.start()
	if !linst.ready() {
		w.harnessErr("leader did not start")
		return
	}
	rc := &restartCtx{w: w, n: L, class: "C06", acked: map[string]bool{}}
	rc.hc = newHistChecker(w, linst, newModel(), "C06")
	rc.hc.exact = false
	w.stepHooks = append(w.stepHooks, func() { rc.hc.stepHook() })

	// known-finding attribution (see known_findings.json): renames applied while the
	// leader rewrites its log, and rewrites that complete during a follower handshake
	renamed := map[string]bool{}
	var swapSteps []int
	hookRename := func(hc *histChecker, inst func() *Inst) {
		prev := hc.lm.onEntry
		hc.lm.onEntry = func(e *lmEntry, before, after *Model) {
			prev(e, before, after)
			if c := lower(e.args[0]); (c == "rename" || c == "renamenx") && len(e.args) == 3 && (inst().srv.shrinking || renamed[e.args[1]] || renamed[e.args[2]]) {
				renamed[e.args[1]] = true
				renamed[e.args[2]] = true
			}
		}
	}
	hookRename(rc.hc, func() *Inst { return L.inst })
	lastPoint := ""
	w.stepHooks = append(w.stepHooks, func() {
		p := L.inst.atPoint
		if p == "shrink.swap.reopened" && lastPoint != p {
			swapSteps = append(swapSteps, w.step)
		}
		lastPoint = p
	})
	big := w.knob("big", 4) == 0
	nc := 1 + w.knob("clients", 2)
	per := []int{8, 16, 30}[w.knob("per", 3)]
	if w.deep() && w.knob("deep", 3) == 0 {
		per = 70
	}
	var clients []*Actor
	for i := 0; i < nc; i++ {
		i := i
		prog := w.program(fmt.Sprintf("p%d", i+1), func(r *rand.Rand) []Cmd { return c06LeaderProg(r, i+1, per, big) })
		a := w.addActor(L, simAddr(fmt.Sprintf("127.0.0.1:%d", 50001+i)), prog)
		a.onReply = func(op *Op) { rc.hc.onReply(op, a.end.c.name) }
		clients = append(clients, a)
	}
	clientsDone := func() bool {
		for _, a := range clients {
			if !a.done() {
				return false
			}
		}
		return true
	}
	ackedEntries := func() int {
		k := 0
		for i := range rc.hc.lm.entries {
			if strings.HasPrefix(rc.hc.lm.entries[i].owner, "a") {
				k = i + 1
			}
		}
		return k
	}
	// phase 1: the leader gets some history before the follower exists
	phase1 := w.knob("phase1", 3) // fraction of the program run before the follower starts
	w.RunChaos(per*nc*20*phase1, clientsDone)
	if w.failed() {
		return
	}
	// initial follower state
	// 0 empty, 1 a true prefix of the leader's log, 2 unrelated data, 3 a prefix of the leader's
	// log followed by writes the leader never saw (a node that was on its own for a while)
	initial := w.knob("initial", 4)
	// One run in eight is aimed at the checksum search of a resynchronizing follower: the leader's
	// log gets a command that ends exactly at the end of the first checksum window, the follower
	// starts with a true prefix that reaches some 20 KB past it, and the leader acknowledges
	// another 40 KB before the follower connects.
	var forcedPrefix []byte
	// (A second flavour, another run in eight: the follower shares exactly that first window with
	// the leader and then holds 15 commands of its own, each as long as the leader's command at
	// the same place - a node that was on its own for a while. Whatever it keeps of its own tail
	// while resynchronizing is neither verified nor the leader's.)
	boundaryKind := 0
	if w.knob("boundary", 8) == 1 {
		boundaryKind = 1
	} else if w.knob("boundarydiv", 7) == 1 { // (a knob of its own: recorded runs keep their meaning)
		boundaryKind = 2
	}
	if boundaryKind != 0 {
		for _, a := range clients {
			a.paused = true
		}
		w.Settle()
		bulkN := 0
		bulk := func(cmds []Cmd) bool {
			bulkN++
			ba := w.addActor(L, simAddr(fmt.Sprintf("127.0.0.1:%d", 50320+bulkN)), cmds)
			ba.onReply = func(op *Op) { rc.hc.onReply(op, ba.end.c.name) }
			if !w.Drain(120*time.Second, ba.done) {
				if !w.failed() {
					w.harnessErr("boundary set-up: bulk writes did not finish")
				}
				return false
			}
			w.Settle()
			return true
		}
		mk := func(id string, n int) Cmd {
			return Cmd{Args: []string{"SET", "kfill", id, "STRING", strings.Repeat("f", n)}}
		}
		cur := L.inst.srv.aofsz
		var fill []Cmd
		for i := 0; cur+len(encodeCmd(mk("f0000", 1500).Args)) < checksumsz-2500; i++ {
			c := mk(fmt.Sprintf("f%04d", i), 1500)
			fill = append(fill, c)
			cur += len(encodeCmd(c.Args))
		}
		// the command that ends exactly on the window boundary
		for n := checksumsz - cur; n > 0; n-- {
			if c := mk("pad", n); cur+len(encodeCmd(c.Args)) == checksumsz {
				fill = append(fill, c)
				cur = checksumsz
				break
			}
		}
		for i := 0; i < 15; i++ {
			fill = append(fill, mk(fmt.Sprintf("t%04d", i), 1500))
		}
		if cur != checksumsz || !bulk(fill) {
			return
		}
		if b, err := os.ReadFile(filepath.Join(L.dir, "appendonly.aof")); err == nil && len(b) > checksumsz {
			if ents, rest, perr := parseLog(b); perr == nil && len(rest) == 0 {
				onBoundary := false
				for _, e := range ents {
					if e.end == checksumsz {
						onBoundary = true
					}
				}
				if onBoundary {
					forcedPrefix = b
					initial = 1
					w.stat("probe.follower_prefix_with_command_end_on_window_boundary", 1)
					if boundaryKind == 2 {
						forcedPrefix = append([]byte(nil), b[:checksumsz]...)
						for i := 0; i < 15; i++ {
							forcedPrefix = append(forcedPrefix, encodeCmd([]string{"SET", "kfill", fmt.Sprintf("x%04d", i), "STRING", strings.Repeat("d", 1500)})...)
						}
						w.stat("probe.follower_own_tail_starts_on_window_boundary", 1)
					}
				}
			}
		}
		var more []Cmd
		for i := 0; i < 25; i++ {
			more = append(more, mk(fmt.Sprintf("m%04d", i), 1500))
		}
		if !bulk(more) {
			return
		}
		for _, a := range clients {
			a.paused = false
		}
	}
	F.dir = F.freshDir()
	switch initial {
	case 1, 3:
		w.Settle()
		rc.hc.lm.poll()
		b, _ := os.ReadFile(filepath.Join(L.dir, "appendonly.aof"))
		ents, _, _ := parseLog(b)
		cut := 0
		if len(ents) > 0 {
			cut = ents[w.ch.choose(len(ents))].end
		}
		own := b[:cut:cut]
		if forcedPrefix != nil {
			own, cut = forcedPrefix, len(forcedPrefix)
		}
		if initial == 3 {
			m, _, _, _ := modelFromLog(own, w.now())
			tail := w.program("divergent", func(r *rand.Rand) []Cmd {
				g := defaultGenCfg(8)
				g.keys = []string{"k1", "d1"}
				g.exVals = []string{"1000"}
				var p []Cmd
				for i, n := 0, 1+r.Intn(8); i < n; i++ {
					p = append(p, g.writeCmd(r))
				}
				if r.Intn(2) == 0 {
					for i := 0; i < 10; i++ {
						p = append(p, Cmd{Args: []string{"SET", "dbig", fmt.Sprintf("b%d", i), "STRING", strings.Repeat("d", 60000)}})
					}
				}
				return p
			})
			for _, c := range tail {
				if r := m.apply(c.Args, 0); r.changed {
					own = append(own, encodeCmd(c.Args)...)
				}
			}
			w.stat("c06.initial_divergent_tail_bytes", len(own)-cut)
		}
		os.WriteFile(filepath.Join(F.dir, "appendonly.aof"), own, 0600)
		w.stat("c06.initial_prefix_bytes", cut)
		if cut >= checksumsz {
			w.stat("probe.initial_prefix_exceeds_checksum_window", 1)
		}
	case 2:
		ur := w.program("unrelated", func(r *rand.Rand) []Cmd {
			g := defaultGenCfg(7)
			g.keys = []string{"u1", "u2"}
			g.exVals = []string{"1000"}
			var p []Cmd
			for i := 0; i < 10; i++ {
				p = append(p, g.writeCmd(r))
			}
			if r.Intn(2) == 0 {
				p = append(p, Cmd{Args: []string{"SETCHAN", "uch", "NEARBY", "u1", "FENCE", "POINT", "1", "1", "1000"}})
			}
			if r.Intn(3) == 0 {
				for i := 0; i < 12; i++ {
					p = append(p, Cmd{Args: []string{"SET", "ubig", fmt.Sprintf("b%d", i), "STRING", strings.Repeat("u", 60000)}})
				}
			}
			return p
		})
		var raw []byte
		m := newModel()
		for _, c := range ur {
			if r := m.apply(c.Args, 0); r.changed {
				raw = append(raw, encodeCmd(c.Args)...)
			}
		}
		os.WriteFile(filepath.Join(F.dir, "appendonly.aof"), raw, 0600)
	}
	// one run in three makes the instant between a log stream's end-of-file and its wait for more
	// a decision point: a flush that lands exactly there wakes nobody
	if w.knob("streameof", 3) == 1 {
		L.parkStreamEOF = true
		w.stat("c06.runs_with_stream_eof_point", 1)
	}
	viaCmd := w.knob("followcmd", 2) == 1
	if !viaCmd {
		F.config["follow_host"] = "10.0.0.1"
		F.config["follow_port"] = 9851
	}
	os.WriteFile(filepath.Join(F.dir, "config"), []byte(mustJSON(F.config)), 0600)
	// one run in five pauses the follower in the middle of its synchronization: the leader first
	// gets ~150 KB more acknowledged history, the replication link stalls after the first tens of
	// KB, the leader publishes while it is stalled, then the link is released
	pausedSync := w.knob("pausedsync", 5) == 1
	linkStalled, linkReleased := false, false
	if pausedSync {
		bp := w.program("bulk", func(r *rand.Rand) []Cmd {
			var p []Cmd
			for i := 0; i < 100; i++ {
				p = append(p, Cmd{Args: []string{"SET", "kbulk", fmt.Sprintf("b%03d", i), "STRING", fmt.Sprintf("v%d-", i) + strings.Repeat("x", 1200+r.Intn(600))}})
			}
			return p
		})
		ba := w.addActor(L, "127.0.0.1:50310", bp)
		ba.onReply = func(op *Op) { rc.hc.onReply(op, ba.end.c.name) }
		if !w.Drain(60*time.Second, ba.done) {
			if !w.failed() {
				w.harnessErr("bulk history did not finish")
			}
			return
		}
		w.sndWindow = 1
		w.stepHooks = append(w.stepHooks, func() {
			if linkReleased {
				return
			}
			w.mu.Lock()
			for _, c := range w.conns {
				if strings.HasPrefix(c.label, "repl:") && (linkStalled || c.a.delivered >= 6000) {
					linkStalled = true
					c.a.stalledUntil = w.now() + 24*time.Hour
					c.b.stalledUntil = w.now() + 24*time.Hour
				}
			}
			w.mu.Unlock()
		})
	}
	F.start()
	var fctl *observer
	if viaCmd {
		fctl = newObserver(w, F)
		fctl.a.from = "127.0.0.1:50900"
		if v, ok := fctl.do("FOLLOW", "10.0.0.1", "9851"); !ok || v.isErr() {
			if !w.failed() {
				w.harnessErr("FOLLOW command failed: %v", v.String())
			}
			return
		}
	}
	// half of the runs: a publisher on the leader while the follower synchronizes (published
	// messages travel over the replication connection too, between the pieces of the log; they
	// are not part of the log and must not count as progress)
	if pausedSync {
		w.Drain(20*time.Second, func() bool { return linkStalled })
	}
	if w.knob("publisher", 2) == 1 || pausedSync {
		pp := w.program("publisher", func(r *rand.Rand) []Cmd {
			var p []Cmd
			for i, n := 0, 12+r.Intn(20); i < n; i++ {
				p = append(p, Cmd{Args: []string{"PUBLISH", []string{"news", "ch0"}[r.Intn(2)], fmt.Sprintf("pub%d-", i) + strings.Repeat("q", 200+r.Intn(4000))}})
			}
			return p
		})
		pa := w.addActor(L, "127.0.0.1:50300", pp)
		pa.weight = 2
		if pausedSync && linkStalled {
			w.Drain(60*time.Second, pa.done)
			w.Settle()
			w.stat("probe.published_while_follower_paused_mid_sync", 1)
		}
	}
	if pausedSync {
		linkReleased = true
		w.mu.Lock()
		for _, c := range w.conns {
			if strings.HasPrefix(c.label, "repl:") {
				c.a.stalledUntil, c.b.stalledUntil = 0, 0
			}
		}
		w.mu.Unlock()
	}
	// kConn: leader writes acknowledged when the follower's current replication
	// connection (the one that carries the log stream) was dialed
	kConn := 0
	dialAck := map[string]int{}
	dialStep := map[string]int{}
	staleSize := false // the stream connection's SERVER reply predates a rewrite of the leader's log
	seenGrants := 0
	seenF := 0
	// after a leader crash and until the follower's stream runs against the restarted leader, the
	// follower still holds (and is measured against) what the crashed instance had streamed
	var oldLM *LogModel
	oldK := 0
	awaitReconnect := false
	trackConn := func() {
		w.mu.Lock()
		for _, c := range w.conns {
			if strings.HasPrefix(c.label, "repl:n2>") {
				if _, ok := dialAck[c.name]; !ok {
					dialAck[c.name] = ackedEntries()
					dialStep[c.name] = w.step
				}
			}
		}
		w.mu.Unlock()
		g := L.inst.grants
		if seenGrants > len(g) {
			seenGrants = 0 // leader restarted
		}
		if fi := F.inst; fi != nil && !fi.dead {
			if seenF > len(fi.grants) {
				seenF = 0
			}
			for ; seenF < len(fi.grants); seenF++ {
				if fi.grants[seenF].role == "followchk" && fi.srv.aofsz >= checksumsz {
					w.stat("probe.checksum_search_on_follower_log", 1)
				}
			}
		}
		for ; seenGrants < len(g); seenGrants++ {
			if g[seenGrants].role == "liveaof" {
				if k, ok := dialAck[g[seenGrants].conn]; ok {
					kConn = k
					staleSize = false
					awaitReconnect = false
					for _, ss := range swapSteps {
						if ss >= dialStep[g[seenGrants].conn] && ss <= g[seenGrants].step {
							staleSize = true
							w.stat("probe.rewrite_during_follower_handshake", 1)
						}
					}
				}
			}
		}
	}
	// safety: whenever the follower says it is caught up, its dataset is the
	// leader's model after some prefix that contains everything acknowledged
	// before its last (re)connect
	var cmpDigest uint64
	var cmpN, cmpK int
	var cmpOK bool
	caughtUpSeen := 0
	// cuHist[step] = the follower's internal caught-up state at that step (what the data oracle
	// below is tied to); what the follower SAYS over its API is tied to it further down
	var cuHist []bool
	wasCU := false
	var saidOps []*Op
	retargeted := false
	safety := func() {
		if retargeted {
			return // the follower now follows somebody else: judged by the last act
		}
		trackConn()
		fi := F.inst
		cu := fi != nil && !fi.dead && fi.ready() && fi.srv.config.followHost() != "" && fi.srv.caughtUp()
		for len(cuHist) <= w.step {
			cuHist = append(cuHist, cu)
		}
		for _, op := range saidOps {
			ok := false
			for st := op.Invoke; st <= op.Return && st < len(cuHist); st++ {
				if st >= 0 && cuHist[st] {
					ok = true
				}
			}
			if !ok {
				w.violate("C06/healthz", "the follower answered %s with %s although it was not caught up at any instant between the command's send (step %d) and its reply (step %d)",
					op.Cmd.String(), clipStr(op.Reply.String(), 80), op.Invoke, op.Return)
			}
		}
		saidOps = nil
		if !cu {
			cmpOK = false
			wasCU = false
			return
		}
		if !wasCU {
			wasCU = true
			if os.Getenv("VERIF_DEBUG") != "" && pausedSync {
				fmt.Fprintf(os.Stderr, "DEBUG seed=%d step=%d first caught-up: leader aofsz=%d follower aofsz=%d faofsz=%d kConn=%d entries=%d released=%v\n", w.seed, w.step, L.inst.srv.aofsz, fi.srv.aofsz, fi.srv.faofsz, kConn, len(rc.hc.lm.entries), linkReleased)
			}
			if d := L.inst.srv.aofsz - fi.srv.aofsz; d > 0 {
				w.stat("c06.caught_up_reported_with_leader_ahead", 1)
			}
		}
		if fi.lock.writer != nil {
			return
		}
		caughtUpSeen++
		lm := rc.hc.lm
		lo := kConn
		if awaitReconnect {
			lm, lo = oldLM, oldK
		}
		d := fi.digest()
		if cmpOK && d == cmpDigest && len(lm.entries) == cmpN && lo == cmpK {
			return
		}
		dump := fi.dump()
		var firstErr error
		if lo > len(lm.entries) {
			lo = len(lm.entries)
		}
		for k := len(lm.entries); k >= lo; k-- {
			if err := compareDump(lm.states[k], dump, true); err == nil {
				cmpOK, cmpDigest, cmpN, cmpK = true, d, len(lm.entries), lo
				return
			} else if firstErr == nil {
				firstErr = err
			}
		}
		if os.Getenv("VERIF_DEBUG") != "" {
			le, _, _ := parseLog(L.inst.aofStream())
			fe, _, _ := parseLog(fi.aofStream())
			for i, e := range le {
				fmt.Fprintf(os.Stderr, "DEBUG L[%d] %s\n", i, clipStr(strings.Join(e.args, " "), 100))
			}
			for i, e := range fe {
				fmt.Fprintf(os.Stderr, "DEBUG F[%d] %s\n", i, clipStr(strings.Join(e.args, " "), 100))
			}
			fmt.Fprintf(os.Stderr, "DEBUG follower aofsz=%d faofsz=%d leader aofsz=%d\n", fi.srv.aofsz, fi.srv.faofsz, L.inst.srv.aofsz)
		}
		class := "C06/caught-up"
		if publishInterleaved(fi) {
			class = "C06/caught-up-publish-interleaved"
		} else if staleSize {
			class = "C06/caught-up-stale-size"
		} else if len(renamed) > 0 {
			// attributed to the rename finding only if, for some admissible prefix, every
			// differing collection was named by a rename applied during a leader rewrite
			for k := len(lm.entries); k >= lo; k-- {
				dk, hd := diffKeys(lm.states[k], dump)
				all := !hd
				for _, x := range dk {
					if !renamed[x] {
						all = false
					}
				}
				if all {
					class = "C06/caught-up-rename"
					break
				}
			}
		}
		w.violate(class, "the follower reports caught_up=true but its dataset is not the leader's after any log prefix in [%d,%d] (the leader had acknowledged %d writes when the follower last connected); against the newest state: %v; leader log rewritten during the handshake: %v; renames during a leader rewrite touched %v",
			lo, len(lm.entries), kConn, firstErr, staleSize, sortedBoolKeys(renamed))
	}
	w.stepHooks = append(w.stepHooks, safety)
	// a client keeps asking the follower whether it is healthy / caught up: a positive answer is
	// legitimate only if the follower was (internally) caught up at some instant while the
	// command was in flight
	// (in half of the runs; drawn as a named knob so that older replay files, which have no such
	// client, keep their schedules)
	if w.knob("healthprobe", 2) == 1 {
		hp := w.addActor(F, "127.0.0.1:50950", func() []Cmd {
			var p []Cmd
			for i := 0; i < 10; i++ {
				p = append(p, Cmd{Args: []string{"HEALTHZ"}}, Cmd{Args: []string{"SERVER"}})
			}
			return p
		}())
		hp.weight = 1
		hp.onReply = func(op *Op) {
			said := false
			switch op.name() {
			case "healthz":
				said = op.Reply.String() == "+OK"
			case "server":
				said = op.Reply.T == '*' && pairsOf(op.Reply)["caught_up"] == "true"
			}
			if !said {
				return
			}
			w.stat("c06.positive_health_answers", 1)
			saidOps = append(saidOps, op) // judged by the step hook, once this step's state is recorded
		}
	}

	// faults
	nfaults := w.knob("nfaults", 4)
	if w.deep() {
		nfaults += w.knob("morefaults", 6)
	}
	leaderCrashes := w.knob("leadercrash", 3) / 2 // one run in three may crash the leader once
	var pendingRestart bool
	w.faults = append(w.faults, func() []action {
		if nfaults <= 0 || pendingRestart {
			return nil
		}
		var acts []action
		w.mu.Lock()
		var repl []*simConn
		for _, c := range w.conns {
			if strings.HasPrefix(c.label, "repl:") && !c.dead() {
				repl = append(repl, c)
			}
		}
		w.mu.Unlock()
		for _, c := range repl {
			c := c
			acts = append(acts, action{kind: akFault, key: "kill " + c.name, run: func() {
				nfaults--
				w.stat("fault.kill_replication_conn", 1)
				c.kill()
			}})
			acts = append(acts, action{kind: akFault, key: "stall " + c.name, run: func() {
				nfaults--
				w.stat("fault.stall_replication_conn", 1)
				d := []time.Duration{300 * time.Millisecond, time.Second, 3 * time.Second}[w.ch.choose(3)]
				c.a.stalledUntil = w.now() + d
				c.b.stalledUntil = w.now() + d
			}})
		}
		if leaderCrashes > 0 && !L.inst.dead && L.inst.atPoint == "" {
			acts = append(acts, action{kind: akFault, key: "crash leader", w: 1, run: func() {
				nfaults--
				leaderCrashes--
				w.stat("fault.crash_leader", 1)
				// crash, verify the surviving log against the acknowledged history (C03's
				// oracle), restart; the follower has to find its way back
				rc.hc.lm.poll()
				if !awaitReconnect {
					oldLM, oldK = rc.hc.lm, kConn
				}
				awaitReconnect = true
				if !rc.stopAndRestart(false) {
					return
				}
				hookRename(rc.hc, func() *Inst { return L.inst })
				dialAck = map[string]int{}
				dialStep = map[string]int{}
				kConn = 0
				seenGrants = 0
				cmpOK = false
			}})
		}
		if F.inst != nil && !F.inst.dead {
			acts = append(acts, action{kind: akFault, key: "crash follower", w: 2, run: func() {
				nfaults--
				w.stat("fault.crash_follower", 1)
				F.crash()
				pendingRestart = true
			}})
		}
		return acts
	})
	w.extra = append(w.extra, func() []action {
		if !pendingRestart {
			return nil
		}
		return []action{{kind: akFault, key: "restart follower", w: 3, run: func() {
			pendingRestart = false
			F.start()
		}}}
	})
	if w.knob("leadershrink", 3) == 0 {
		sh := w.addActor(L, "127.0.0.1:50200", []Cmd{{Args: []string{"AOFSHRINK"}}})
		sh.weight = 1
		_ = sh
	}
	w.weights[akFault] = []int{1, 2, 4}[w.knob("wfault", 3)]
	w.RunChaos(per*nc*120+2000, func() bool { return clientsDone() && nfaults <= 0 })
	if w.failed() {
		return
	}
	// drain: faults stopped
	nfaults = 0
	if pendingRestart {
		pendingRestart = false
		F.start()
	}
	w.Drain(40*time.Second, clientsDone)
	if !w.failed() && !clientsDone() {
		w.harnessErr("leader clients did not finish")
		return
	}
	shrinkIdle := func() bool { return !L.inst.srv.shrinking && L.inst.atPoint == "" }
	w.Drain(20*time.Second, shrinkIdle)
	equal := func() bool {
		fi := F.inst
		if fi == nil || fi.dead || !fi.ready() || !fi.srv.caughtUp() || fi.lock.writer != nil || L.inst.lock.writer != nil {
			return false
		}
		return fi.dump().text(true) == L.inst.dump().text(true)
	}
	start := w.now()
	ok := w.Drain(15*time.Second, equal)
	if w.failed() {
		return
	}
	if !ok {
		fi := F.inst
		if fi == nil || !fi.ready() || !fi.srv.caughtUp() {
			// The property is conditional on the follower REPORTING caught-up; it does not promise
			// that it eventually does. Counted, not reported (seen when the leader's log is
			// rewritten between the follower's SERVER and AOF requests: the follower then waits
			// for a byte position of the old log).
			w.stat("probe.follower_never_reported_caught_up", 1)
			w.sample = map[string]interface{}{"seed": w.seed, "note": "follower did not report caught-up within 15 virtual seconds; equality oracle not applicable"}
			return
		} else {
			lt, ft := L.inst.dump().text(true), fi.dump().text(true)
			class := "C06/diverged"
			if publishInterleaved(fi) {
				class = "C06/diverged-publish-interleaved"
			} else if staleSize {
				class = "C06/diverged-stale-size"
			} else if len(renamed) > 0 {
				rc.hc.lm.poll()
				dk, hd := diffKeys(rc.hc.lm.cur(), fi.dump())
				all := !hd
				for _, k := range dk {
					if !renamed[k] {
						all = false
					}
				}
				if all {
					class = "C06/diverged-rename"
				}
			}
			w.violate(class, "the follower reports caught-up, the leader is quiescent, but the datasets differ: %s; renames during a leader rewrite touched %v", firstDiff(lt, ft), sortedBoolKeys(renamed))
		}
		return
	}
	w.stat("c06.catchup_virtual_ms", int((w.now()-start)/time.Millisecond))
	// stays equal
	w.Sleep(2 * time.Second)
	w.Settle()
	if fi := F.inst; !w.failed() && fi.ready() && fi.srv.caughtUp() && fi.lock.writer == nil && L.inst.lock.writer == nil {
		if lt, ft := L.inst.dump().text(true), fi.dump().text(true); lt != ft {
			w.violate("C06/diverged", "leader and follower were equal and diverged again without any write: %s", firstDiff(lt, ft))
		}
	}
	if F.inst.srv.aofsz >= checksumsz {
		w.stat("probe.follower_log_exceeds_checksum_window", 1)
	}
	// an act of memory pressure (one run in four): the follower is put over its own maxmemory
	// while the leader acknowledges more writes. It may fall behind for as long as it likes; it
	// may not report caught-up while it lacks them, and once the pressure is gone it converges.
	// (Only with a follower log shorter than the checksum window: with a longer one every
	// reconnect re-loads the follower's own log, the re-load runs into the same refusal and
	// tile38 ends the process with log.Fatal "could not reload aof" - a dead follower reports
	// nothing, so the property has nothing to say about it; noted in DESIGN.md section 12.)
	if !w.failed() && w.knob("oom", 4) == 1 && F.inst != nil && F.inst.ready() && F.inst.srv.aofsz < checksumsz {
		fob := newObserver(w, F)
		fob.a.from = "127.0.0.1:50920"
		if v, ok := fob.do("CONFIG", "SET", "maxmemory", "1"); !ok || v.isErr() {
			if !w.failed() {
				w.harnessErr("CONFIG SET maxmemory on the follower failed: %v", v.String())
			}
			return
		}
		w.Sleep(4500 * time.Millisecond) // the memory watcher looks every 4 s
		lob := newObserver(w, L)
		lob.a.from = "127.0.0.1:50921"
		for i := 0; i < 6; i++ {
			if _, ok := lob.do("SET", "k1", fmt.Sprintf("mem%d", i), "POINT", "5", fmt.Sprint(i)); !ok {
				return
			}
		}
		if _, ok := lob.do("FSET", "k1", "mem0", "f1", "77"); !ok {
			return
		}
		if F.inst.srv.outOfMemory.Load() {
			w.stat("probe.follower_over_maxmemory_while_leader_writes", 1)
		}
		underPressure := func() bool {
			fi := F.inst
			if fi == nil || fi.dead || !fi.ready() || !fi.srv.caughtUp() || fi.lock.writer != nil || L.inst.lock.writer != nil {
				return false
			}
			return true
		}
		// while the pressure lasts: a follower that goes on saying caught-up (leader quiescent) is a
		// copy. The flag of a connection that has just failed is reset only when the follower
		// reconnects, a second later - as after any lost connection; what counts is a report that
		// persists: here, at every one of five samples spanning two seconds.
		persist := 0
		for i := 0; i < 9 && !w.failed(); i++ {
			w.Sleep(500 * time.Millisecond)
			w.Settle()
			if underPressure() && L.inst.dump().text(true) != F.inst.dump().text(true) {
				persist++
			} else {
				persist = 0
			}
			if persist >= 5 {
				w.violate("C06/caught-up-over-maxmemory", "over its maxmemory the follower has reported caught-up for 2 s with the leader quiescent, but the datasets differ: %s", firstDiff(L.inst.dump().text(true), F.inst.dump().text(true)))
				return
			}
		}
		if v, ok := fob.do("CONFIG", "SET", "maxmemory", "0"); !ok || v.isErr() {
			return
		}
		if !w.Drain(30*time.Second, equal) && !w.failed() {
			if underPressure() {
				w.violate("C06/diverged-after-maxmemory", "the memory pressure is gone, the follower reports caught-up, the leader is quiescent, but the datasets differ: %s", firstDiff(L.inst.dump().text(true), F.inst.dump().text(true)))
				return
			}
			w.stat("probe.follower_never_reported_caught_up", 1)
			return
		}
		w.stat("probe.follower_converges_after_memory_pressure", 1)
	}
	// last act (one run in four): the follower is pointed at ANOTHER leader with unrelated data,
	// while its old leader goes on writing. "Whatever the follower held before FOLLOW" includes
	// a live replication stream from somebody else: once it reports caught-up, it is a copy of
	// the new leader and of nothing else.
	if !w.failed() && w.knob("retarget", 4) == 1 && F.inst != nil && F.inst.ready() {
		retargeted = true
		B := w.addNode("n3", "10.0.0.3", 9851)
		B.dir = B.freshDir()
		bp := w.program("second-leader", func(r *rand.Rand) []Cmd {
			g := defaultGenCfg(9)
			g.keys = []string{"b1", "k1"}
			g.exVals = []string{"1000"}
			var p []Cmd
			for i := 0; i < 12; i++ {
				p = append(p, g.writeCmd(r))
			}
			p = append(p, Cmd{Args: []string{"SETCHAN", "bch", "NEARBY", "b1", "FENCE", "POINT", "2", "2", "500"}})
			return p
		})
		var braw []byte
		bm := newModel()
		for _, c := range bp {
			if r := bm.apply(c.Args, 0); r.changed {
				braw = append(braw, encodeCmd(c.Args)...)
			}
		}
		os.WriteFile(filepath.Join(B.dir, "appendonly.aof"), braw, 0600)
		os.WriteFile(filepath.Join(B.dir, "config"), []byte(mustJSON(B.config)), 0600)
		if bi := B.start(); !bi.ready() {
			w.harnessErr("second leader did not start")
			return
		}
		fob := newObserver(w, F)
		fob.a.from = "127.0.0.1:50910"
		if v, ok := fob.do("FOLLOW", "10.0.0.3", "9851"); !ok || v.isErr() {
			if !w.failed() {
				w.harnessErr("re-target FOLLOW failed: %v", v.String())
			}
			return
		}
		// the old leader keeps writing
		lob := newObserver(w, L)
		lob.a.from = "127.0.0.1:50911"
		for i := 0; i < 6; i++ {
			if _, ok := lob.do("SET", "k1", fmt.Sprintf("late%d", i), "POINT", "3", fmt.Sprint(i)); !ok {
				return
			}
		}
		sameAsB := func() bool {
			fi := F.inst
			if fi == nil || fi.dead || !fi.ready() || !fi.srv.caughtUp() || fi.lock.writer != nil || B.inst.lock.writer != nil {
				return false
			}
			return fi.dump().text(true) == B.inst.dump().text(true)
		}
		okB := w.Drain(20*time.Second, sameAsB)
		if w.failed() {
			return
		}
		fi := F.inst
		if !okB {
			if fi != nil && fi.ready() && fi.srv.caughtUp() && fi.srv.config.followHost() == "10.0.0.3" {
				w.Settle()
				w.violate("C06/retarget", "pointed at a second leader, the follower reports caught-up and both are quiescent, but it is not a copy of it: %s", firstDiff(B.inst.dump().text(true), fi.dump().text(true)))
			} else {
				w.stat("probe.follower_never_reported_caught_up", 1)
			}
			return
		}
		for i := 0; i < 3; i++ {
			if _, ok := lob.do("SET", "k1", fmt.Sprintf("later%d", i), "POINT", "4", fmt.Sprint(i)); !ok {
				return
			}
		}
		w.Sleep(2 * time.Second)
		w.Settle()
		if fi := F.inst; !w.failed() && fi.ready() && fi.srv.caughtUp() && fi.lock.writer == nil {
			if bt, ft := B.inst.dump().text(true), fi.dump().text(true); bt != ft {
				w.violate("C06/retarget", "the follower was a copy of its new leader and changed although that leader did not: %s", firstDiff(bt, ft))
				return
			}
		}
		w.stat("probe.follower_retargeted_to_second_leader", 1)
	}
	w.nontriv = caughtUpSeen > 0 && len(rc.hc.lm.entries) >= 5
	w.sample = map[string]interface{}{"seed": w.seed, "initial_follower_state": []string{"empty", "true prefix of the leader's log", "unrelated data", "prefix of the leader's log + own divergent writes"}[initial],
		"follow_via_command": viaCmd, "leader_log_entries": len(rc.hc.lm.entries), "faults": map[string]int{
			"kill": w.stats["fault.kill_replication_conn"], "stall": w.stats["fault.stall_replication_conn"], "crash_follower": w.stats["fault.crash_follower"]},
		"big_values": big}
}

func firstDiff(a, b string) string {
	al, bl := strings.Split(a, "\n"), strings.Split(b, "\n")
	for i := 0; i < len(al) || i < len(bl); i++ {
		var x, y string
		if i < len(al) {
			x = al[i]
		}
		if i < len(bl) {
			y = bl[i]
		}
		if x != y {
			return fmt.Sprintf("leader has %s | follower has %s", clipStr(x, 200), clipStr(y, 200))
		}
	}
	return "(no difference)"
}

// publishInterleaved reports whether the follower applied a command into which a forwarded PUBLISH
// message had been spliced: the leader's publish forwarder writes to the replication connection
// from its own goroutine while the log streamer writes the log in 32 KB / 8 KB pieces, so a
// published message can land in the middle of a command; the RESP reader then sees the PUBLISH
// array as one (nested) argument of that command. Known finding C06-publish-interleaved.
func publishInterleaved(fi *Inst) bool {
	ents, _, _ := parseLog(fi.aofStream())
	for _, e := range ents {
		for _, a := range e.args {
			if strings.HasPrefix(a, "[PUBLISH ") {
				return true
			}
		}
	}
	return false
}
