package server

// C15 - follower, read-only, password and protected-mode gates hold for every command.
// The modes are simulated states; the (mode x command x wrapper) matrix is enumerated.

import (
	"fmt"
	"net/url"
	"os"
	"path/filepath"
	"strings"
	"time"
)

func init() { registerProp("C15", runC15) }

type cmdClass int

const (
	ccWrite  cmdClass = iota // data-modifying
	ccScript                 // EVAL / EVALSHA (may write)
	ccRead                   // object reads and searches
	ccExempt                 // answered without authentication
	ccMeta                   // reads of metadata (not object reads / searches)
	ccOther
)

type sampleCmd struct {
	args  []string
	class cmdClass
	live  bool // would turn the connection into a stream if accepted
	mode  bool // would change the server's mode if accepted (only sent where it must be rejected)
}

const c15Script = "return tile38.call('SET', 'fleet', 'viascript', 'POINT', 1, 2)"
const c15ScriptRO = "return tile38.call('GET', 'fleet', 'truck1')"

func c15Commands(sha, shaRO string) []sampleCmd {
	fence := []string{"NEARBY", "fleet", "FENCE", "POINT", "33", "-115", "1000"}
	w := func(a ...string) sampleCmd { return sampleCmd{args: a, class: ccWrite} }
	r := func(a ...string) sampleCmd { return sampleCmd{args: a, class: ccRead} }
	o := func(a ...string) sampleCmd { return sampleCmd{args: a, class: ccOther} }
	m := func(a ...string) sampleCmd { return sampleCmd{args: a, class: ccMeta} }
	return []sampleCmd{
		w("SET", "fleet", "newtruck", "FIELD", "speed", "5", "POINT", "33.1", "-115.1"),
		w("SET", "fleet", "truck1", "EX", "100", "POINT", "34", "-114"),
		w("DEL", "fleet", "truck1"),
		w("PDEL", "fleet", "truck*"),
		w("DROP", "fleet"),
		w("FSET", "fleet", "truck1", "speed", "99"),
		w("FLUSHDB"),
		w("EXPIRE", "fleet", "truck1", "10"),
		w("PERSIST", "fleet", "truck2"),
		w("JSET", "fleet", "doc1", "a", "5"),
		w("JDEL", "fleet", "doc1", "a"),
		w("RENAME", "fleet", "fleet2"),
		w("RENAMENX", "fleet", "fleet3"),
		w(append([]string{"SETHOOK", "hooknew", "http://hook0.sim:80/x"}, fence...)...),
		w("DELHOOK", "hook1"),
		w("PDELHOOK", "*"),
		w(append([]string{"SETCHAN", "channew"}, fence...)...),
		w("DELCHAN", "chan1"),
		w("PDELCHAN", "*"),
		{args: []string{"EVAL", c15Script, "0"}, class: ccScript},
		{args: []string{"EVALSHA", sha, "0"}, class: ccScript},
		{args: []string{"EVALNA", c15Script, "0"}, class: ccWrite},
		{args: []string{"EVALNASHA", sha, "0"}, class: ccWrite},
		{args: []string{"EVALRO", c15ScriptRO, "0"}, class: ccRead},
		{args: []string{"EVALROSHA", shaRO, "0"}, class: ccRead},
		r("GET", "fleet", "truck1"),
		r("FGET", "fleet", "truck1", "speed"),
		r("EXISTS", "fleet", "truck1"),
		r("FEXISTS", "fleet", "truck1", "speed"),
		r("TTL", "fleet", "truck1"),
		r("BOUNDS", "fleet"),
		r("JGET", "fleet", "doc1", "a"),
		m("KEYS", "*"),
		r("SCAN", "fleet"),
		r("SEARCH", "fleet"),
		r("NEARBY", "fleet", "POINT", "33", "-115", "100000"),
		r("WITHIN", "fleet", "BOUNDS", "30", "-120", "40", "-110"),
		r("INTERSECTS", "fleet", "BOUNDS", "30", "-120", "40", "-110"),
		m("HOOKS", "*"),
		m("CHANS", "*"),
		m("TYPE", "fleet"),
		m("SERVER"),
		m("INFO"),
		o("STATS", "fleet"),
		o("ROLE"),
		o("TEST", "POINT", "33", "-115", "INTERSECTS", "BOUNDS", "30", "-120", "40", "-110"),
		o("AOFMD5", "0", "10"),
		o("AOFSHRINK"),
		o("GC"),
		o("CONFIG", "GET", "keepalive"),
		o("CONFIG", "REWRITE"),
		o("SCRIPT", "LOAD", "return 1"),
		o("SCRIPT", "EXISTS", sha),
		o("SCRIPT", "FLUSH"),
		o("PUBLISH", "chan1", "hello"),
		o("CLIENT", "LIST"),
		o("TIMEOUT", "10", "GET", "fleet", "truck1"),
		{args: []string{"CONFIG", "SET", "keepalive", "400"}, class: ccOther, mode: true},
		{args: []string{"FOLLOW", "10.0.0.9", "9851"}, class: ccOther, mode: true},
		{args: []string{"READONLY", "yes"}, class: ccOther, mode: true},
		{args: []string{"AOF", "0"}, class: ccOther, live: true},
		{args: []string{"SUBSCRIBE", "chan1"}, class: ccOther, live: true},
		{args: []string{"PSUBSCRIBE", "ch*"}, class: ccOther, live: true},
		{args: []string{"MONITOR"}, class: ccOther, live: true},
		{args: []string{"PING"}, class: ccExempt},
		{args: []string{"ECHO", "hi"}, class: ccExempt},
		{args: []string{"OUTPUT"}, class: ccExempt},
		{args: []string{"HEALTHZ"}, class: ccExempt},
	}
}

func c15Dataset() [][]string {
	fence := []string{"NEARBY", "fleet", "FENCE", "POINT", "33", "-115", "1000"}
	return [][]string{
		{"SET", "fleet", "truck1", "FIELD", "speed", "55", "POINT", "33", "-115"},
		{"SET", "fleet", "truck2", "EX", "5000", "POINT", "33.5", "-115.5"},
		{"SET", "fleet", "doc1", "STRING", `{"a":1,"b":2}`},
		{"SET", "other", "x", "POINT", "1", "1"},
		append([]string{"SETHOOK", "hook1", "http://hook0.sim:80/cb"}, fence...),
		append([]string{"SETCHAN", "chan1"}, fence...),
	}
}

func httpReq(args []string, auth string) string {
	parts := make([]string, len(args))
	for i, a := range args {
		parts[i] = url.PathEscape(a)
	}
	req := "GET /" + strings.Join(parts, "+") + " HTTP/1.1\r\nHost: x\r\n"
	if auth != "" {
		req += "Authorization: " + auth + "\r\n"
	}
	return req + "\r\n"
}

func runC15(w *World) {
	w.drawWeights()
	w.weights[akFault] = 0
	w.cut = cutMode(w.knob("cut", 2))
	w.addWebhook("hook0.sim:80", nil)
	mode := int(w.seed % 8)
	modeName := []string{"follower-never-caught-up", "follower-caught-up", "read-only", "password-unauthenticated", "password-authenticated", "protected-non-loopback", "protected-loopback", "follower-mid-sync"}[mode]
	// the password: short, exactly 64 bytes, or a long token; and for each the near misses that
	// must never authenticate (a comparison is equality of the whole string, nothing less)
	pass := []string{"s3cret", strings.Repeat("Ab1/", 16), "tok-" + strings.Repeat("0123456789abcdefghijkl", 4)}[int(w.seed/8)%3]
	wrongPass := []string{"wrong", pass[:len(pass)-1], pass + "x", pass[:len(pass)-1] + "#", pass + "\x00", strings.ToUpper(pass), pass + pass}
	if len(pass) > 64 {
		wrongPass = append(wrongPass, pass[:64], pass[:64]+"tail-of-another-token")
	}
	sha := Sha1Sum(c15Script)
	shaRO := Sha1Sum(c15ScriptRO)
	var raw []byte
	for _, c := range c15Dataset() {
		raw = append(raw, encodeCmd(c)...)
	}
	mkNode := func(name, ip string, withData bool) *Node {
		n := w.addNode(name, ip, 9851)
		n.opts.UseHTTP = true
		n.dir = n.freshDir()
		if withData {
			os.WriteFile(filepath.Join(n.dir, "appendonly.aof"), raw, 0600)
		}
		return n
	}
	writeCfg := func(n *Node) {
		os.WriteFile(filepath.Join(n.dir, "config"), []byte(mustJSON(n.config)), 0600)
	}
	var target *Node
	midSync := false
	pwAtRuntime := false
	roAtRuntime := false
	clientAddr := simAddr("127.0.0.1:50001")
	switch mode {
	case 0: // follower whose leader never answers: it has never caught up
		target = mkNode("n2", "10.0.0.2", true)
		target.config["follow_host"] = "10.0.0.1"
		target.config["follow_port"] = 9851
		target.opts.UseHTTP = true
		writeCfg(target)
		target.start()
	case 7:
		// a follower in its FIRST synchronization, stopped half-way: the leader's log is much
		// longer than what the replication link has carried when it stalls. The follower has
		// applied some commands, not all: it has never caught up.
		mode = 0
		midSync = true
		L := mkNode("n1", "10.0.0.1", true)
		bulk := append([]byte(nil), raw...)
		for i := 0; i < 300; i++ { // (the leader hands its log to the socket 32 KB at a time)
			bulk = append(bulk, encodeCmd([]string{"SET", "bulk", fmt.Sprintf("b%03d", i), "STRING", strings.Repeat("x", 600)})...)
		}
		os.WriteFile(filepath.Join(L.dir, "appendonly.aof"), bulk, 0600)
		writeCfg(L)
		L.start()
		w.sndWindow = 1 // the leader's stream advances only as far as it is delivered
		target = mkNode("n2", "10.0.0.2", false)
		target.config["follow_host"] = "10.0.0.1"
		target.config["follow_port"] = 9851
		target.opts.UseHTTP = true
		writeCfg(target)
		stalled := false
		w.stepHooks = append(w.stepHooks, func() {
			// the link stalls once it has carried a few KB towards the follower; connections
			// opened later (reconnects) do not get through either
			w.mu.Lock()
			for _, c := range w.conns {
				if strings.HasPrefix(c.label, "repl:") && (stalled || c.a.delivered >= 6000) {
					stalled = true
					c.a.stalledUntil = w.now() + 24*time.Hour
					c.b.stalledUntil = w.now() + 24*time.Hour
				}
			}
			w.mu.Unlock()
		})
		target.start()
		if !w.Drain(20*time.Second, func() bool { return stalled && target.inst.srv != nil && target.inst.srv.aofsz >= 1200 }) {
			if !w.failed() {
				w.harnessErr("follower did not start synchronizing during set-up")
			}
			return
		}
		w.Settle()
		if got, want := target.inst.srv.aofsz, len(bulk); got >= want {
			w.harnessErr("mid-sync set-up: the follower already holds the whole log (%d of %d bytes)", got, want)
			return
		}
		w.stat("probe.follower_stopped_mid_sync", 1)
	case 1:
		L := mkNode("n1", "10.0.0.1", true)
		writeCfg(L)
		L.start()
		target = mkNode("n2", "10.0.0.2", false)
		target.config["follow_host"] = "10.0.0.1"
		target.config["follow_port"] = 9851
		target.opts.UseHTTP = true
		writeCfg(target)
		target.start()
		if !w.Drain(20*time.Second, func() bool { return target.inst.ready() && target.inst.srv.caughtUp() }) {
			if !w.failed() {
				w.harnessErr("follower did not catch up during set-up")
			}
			return
		}
	case 2:
		target = mkNode("n1", "10.0.0.1", true)
		roAtRuntime = (w.seed/8)%2 == 1
		if !roAtRuntime {
			target.config["read_only"] = true
		}
		target.opts.UseHTTP = true
		writeCfg(target)
		target.start()
	case 3, 4:
		target = mkNode("n1", "10.0.0.1", true)
		// half of the unauthenticated runs set the password at run time, with the probing
		// connection already open and already used
		pwAtRuntime = mode == 3 && (w.seed/8)%2 == 1
		if !pwAtRuntime {
			target.config["requirepass"] = pass
		}
		target.opts.UseHTTP = true
		writeCfg(target)
		target.start()
	case 5, 6:
		target = mkNode("n1", "10.0.0.1", true)
		target.opts.ProtectedMode = "yes"
		pwCleared := mode == 5 && (w.seed/64)%2 == 1
		if pwCleared {
			// the server starts with a password in its configuration file, which an administrator
			// then removes at run time (without rewriting the file): from that moment it has no
			// password, and protected mode has to shut non-loopback peers out
			target.config["requirepass"] = pass
		}
		writeCfg(target)
		target.start()
		if pwCleared && target.inst.ready() {
			adm := newObserver(w, target)
			adm.a.from = "127.0.0.1:50009"
			if v, ok := adm.do("AUTH", pass); !ok || v.String() != "+OK" {
				w.harnessErr("admin AUTH failed: %s", v.String())
				return
			}
			if v, ok := adm.do("CONFIG", "SET", "requirepass", ""); !ok || v.String() != "+OK" {
				w.harnessErr("CONFIG SET requirepass '' failed: %s", v.String())
				return
			}
			w.stat("probe.password_removed_at_runtime_under_protected_mode", 1)
		}
		if mode == 5 {
			// non-loopback peers of several address families and spellings
			clientAddr = simAddr([]string{"10.9.8.7:50001", "[2001:db8::7]:50001", "[fe80::1c2:3ff:fe04:5%eth0]:50001",
				"[::ffff:10.9.8.7]:50001", "192.168.1.20:50001", "[fe80::1%2]:50001", "128.0.0.1:50001", "[::2]:50001"}[(w.seed/8)%8])
		} else if (w.seed/8)%2 == 1 {
			clientAddr = "[::1]:50001" // the other loopback
		}
	}
	inst := target.inst
	if !inst.ready() {
		w.harnessErr("target did not start")
		return
	}
	w.stepHooks = append(w.stepHooks, lockDiscipline(w, inst, "C15"))
	snapshot := func() string {
		srv := inst.srv
		return fmt.Sprintf("%s|aof=%d|follow=%s|ro=%v", inst.dump().text(true), srv.aofsz, srv.config.followHost(), srv.config.readOnly())
	}
	ob := newObserver(w, target)
	ob.a.from = clientAddr
	// HTTP requests use their own connections (the server closes after each response)
	obHTTP := newObserver(w, target)
	obHTTP.a.from = simAddr(strings.Replace(string(clientAddr), "50001", "50002", 1))
	checked := 0
	// do sends one command (optionally as raw bytes) and reports the reply and whether anything changed
	do := func(c Cmd) (rv, bool, bool) {
		w.Settle()
		before := snapshot()
		a := ob.a
		if c.HTTP {
			a = obHTTP.a
		}
		a.prog = append(a.prog, c)
		a.paused = false
		idx := len(a.prog) - 1
		ok := w.Drain(30*time.Second, func() bool {
			return len(a.ops) > idx && (a.ops[idx].Return >= 0 || a.ops[idx].Lost)
		})
		a.paused = true
		if !ok || a.ops[idx].Return < 0 {
			return rv{}, false, false
		}
		w.Settle()
		checked++
		return a.ops[idx].Reply, true, snapshot() != before
	}
	isErr := func(v rv, substr string, http bool) bool {
		if http {
			return (strings.Contains(v.S, `"ok":false`) || strings.Contains(v.S, "\n-")) && strings.Contains(v.S, substr)
		}
		return v.T == '-' && strings.Contains(v.S, substr)
	}
	if roAtRuntime {
		// switched to read-only by command, with the probing connection already in use
		if v, ok, _ := do(Cmd{Args: []string{"SET", "fleet", "warmup", "POINT", "1", "1"}}); !ok || v.String() != "+OK" {
			w.harnessErr("set-up SET failed: %s", v.String())
			return
		}
		admin := newObserver(w, target)
		admin.a.from = "127.0.0.1:50009"
		if v, ok := admin.do("READONLY", "yes"); !ok || v.String() != "+OK" {
			w.harnessErr("READONLY yes failed: %s", v.String())
			return
		}
		w.stat("probe.readonly_set_at_runtime", 1)
	}
	if pwAtRuntime {
		// the probing connection works normally while no password is set ...
		if v, ok, _ := do(Cmd{Args: []string{"GET", "fleet", "truck1"}}); !ok || v.isErr() {
			w.harnessErr("set-up GET failed: %s", v.String())
			return
		}
		if v, ok, _ := do(Cmd{Args: []string{"SET", "fleet", "warmup", "POINT", "1", "1"}}); !ok || v.String() != "+OK" {
			w.harnessErr("set-up SET failed: %s", v.String())
			return
		}
		// ... then an administrator sets one on another connection
		admin := newObserver(w, target)
		admin.a.from = "127.0.0.1:50009"
		if v, ok := admin.do("CONFIG", "SET", "requirepass", pass); !ok || v.String() != "+OK" {
			w.harnessErr("CONFIG SET requirepass failed: %s", v.String())
			return
		}
		w.stat("probe.password_set_at_runtime", 1)
	}
	cmds := c15Commands(sha, shaRO)
	// make the script hashes known where that is possible without being rejected
	type wrapT struct {
		name string
		mk   func(args []string) (Cmd, bool)
		http bool
	}
	wraps := []wrapT{
		{"plain", func(a []string) (Cmd, bool) { return Cmd{Args: a}, true }, false},
		{"timeout", func(a []string) (Cmd, bool) {
			if strings.EqualFold(a[0], "TIMEOUT") {
				return Cmd{}, false
			}
			return Cmd{Args: append([]string{"TIMEOUT", "10"}, a...)}, true
		}, false},
		{"http", func(a []string) (Cmd, bool) { return Cmd{Raw: httpReq(a, ""), HTTP: true}, true }, true},
	}
	// every command also as the single call of a script
	scriptWrap := func(ev string) func(a []string) (Cmd, bool) {
		return func(a []string) (Cmd, bool) {
			up := strings.ToUpper(a[0])
			if strings.HasPrefix(up, "EVAL") || up == "TIMEOUT" || up == "SCRIPT" || up == "CONFIG" {
				return Cmd{}, false
			}
			var refs []string
			for i := range a {
				refs = append(refs, fmt.Sprintf("ARGV[%d]", i+1))
			}
			return Cmd{Args: append([]string{ev, "return tile38.call(" + strings.Join(refs, ", ") + ")", "0"}, a...)}, true
		}
	}
	wraps = append(wraps, wrapT{"eval-script", scriptWrap("EVAL"), false}, wrapT{"evalna-script", scriptWrap("EVALNA"), false}, wrapT{"evalro-script", scriptWrap("EVALRO"), false})
	if mode == 3 || mode == 4 {
		wraps = append(wraps, wrapT{"http+auth", func(a []string) (Cmd, bool) { return Cmd{Raw: httpReq(a, pass), HTTP: true}, true }, true},
			wrapT{"http+wrongauth", func(a []string) (Cmd, bool) {
				return Cmd{Raw: httpReq(a, wrongPass[int(w.seed/24)%len(wrongPass)]), HTTP: true}, true
			}, true})
	}
	if mode == 5 {
		v, ok, _ := do(Cmd{Connect: true})
		if !ok || v.T != '-' || !strings.HasPrefix(v.S, "DENIED") {
			w.violate("C15/protected", "a non-loopback peer of a protected server did not receive the denial text on connect (got %s)", clipStr(v.String(), 100))
			return
		}
		// and the connection is closed: a command sent now gets no answer
		w.Settle()
		if !ob.a.closed {
			w.violate("C15/protected", "the connection of a non-loopback peer stays open after the denial text")
			return
		}
		w.nontriv = true
		w.sigExtra = fmt.Sprintf("mode%d/seed%d", mode, w.seed)
		w.sample = map[string]interface{}{"seed": w.seed, "mode": modeName, "checked": 1}
		return
	}
	if mode == 4 {
		// wrong password never authenticates
		for _, wp := range wrongPass {
			v, ok, ch := do(Cmd{Args: []string{"AUTH", wp}})
			if !ok || !isErr(v, "invalid password", false) || ch {
				w.violate("C15/auth", "AUTH with the wrong password %q (the password is %q) answered %s (changed=%v)", wp, pass, v.String(), ch)
				return
			}
			v, ok, _ = do(Cmd{Args: []string{"GET", "fleet", "truck1"}})
			if !ok || !isErr(v, "authentication required", false) {
				w.violate("C15/auth", "after AUTH with the wrong password %q, GET answered %s", wp, clipStr(v.String(), 100))
				return
			}
		}
		v, ok, _ := do(Cmd{Args: []string{"AUTH", pass}})
		if !ok || v.String() != "+OK" {
			w.violate("C15/auth", "AUTH with the right password answered %s", v.String())
			return
		}
	}
	for _, wr := range wraps {
		for _, sc := range cmds {
			if w.failed() {
				return
			}
			c, ok := wr.mk(sc.args)
			if !ok {
				continue
			}
			mustReject := ""
			switch mode {
			case 0, 1:
				if sc.class == ccWrite || sc.class == ccScript {
					mustReject = "not the leader"
				} else if mode == 0 && sc.class == ccRead {
					mustReject = "catching up to leader"
				}
			case 2:
				if sc.class == ccWrite || sc.class == ccScript {
					mustReject = "read only"
				}
			case 3:
				if sc.class != ccExempt && wr.name != "http+auth" {
					mustReject = "authentication required"
					if wr.name == "http+wrongauth" {
						mustReject = "invalid password"
					}
				}
			case 4:
				if wr.name == "http+wrongauth" {
					// an authenticated RESP connection is not involved: HTTP requests authenticate per request
					mustReject = "invalid password"
				}
			}
			if strings.HasSuffix(wr.name, "-script") {
				// inside a script: any error is a rejection; what matters is that nothing changes
				switch {
				case mode == 3:
					mustReject = "authentication required"
				case (mode == 0 || mode == 1 || mode == 2) && wr.name == "eval-script":
					// EVAL may write, so a follower / read-only server refuses it as a whole
					mustReject = "ERR"
					if sc.class != ccWrite && sc.class != ccRead {
						continue
					}
				case (mode == 0 || mode == 1 || mode == 2) && sc.class == ccWrite:
					mustReject = "ERR"
				case wr.name == "evalro-script" && sc.class == ccWrite:
					mustReject = "ERR" // EVALRO can never modify data, on any server
				case mode == 0 && sc.class == ccRead:
					mustReject = "catching up to leader"
				default:
					mustReject = ""
				}
				if mustReject == "" && (sc.class != ccRead || mode == 0) {
					continue // no claim about this combination
				}
			}
			if mustReject == "" && (sc.mode || sc.live || (wr.http && sc.live)) {
				continue // would change the mode / turn the connection into a stream: not part of the control runs
			}
			if mustReject == "" && mode != 3 {
				// control: the command is allowed here; it may change state, which would spoil
				// later "nothing changed" checks only if it were rejected - fine. Skip destructive
				// ones so that later commands still have their objects.
				switch strings.ToUpper(sc.args[0]) {
				case "FLUSHDB", "DROP", "PDEL", "DEL", "RENAME", "RENAMENX", "PDELHOOK", "PDELCHAN", "DELHOOK", "DELCHAN", "AOFSHRINK", "SCRIPT":
					continue
				}
			}
			if wr.http && (mode == 3 || mode == 4) && wr.name == "http" && mode == 4 {
				// plain HTTP without Authorization on a password server: must be rejected too
				if sc.class != ccExempt {
					mustReject = "authentication required"
				}
			}
			if wr.http && (strings.HasPrefix(strings.ToUpper(sc.args[0]), "EVAL") || (mustReject == "" && strings.EqualFold(sc.args[0], "OUTPUT"))) {
				continue // script text cannot be expressed in a GET path; OUTPUT is per connection
			}
			if sc.class == ccExempt && wr.name == "http+wrongauth" {
				continue // exempt commands are answered before any credentials are looked at
			}
			v, ok, changed := do(c)
			if !ok {
				if !w.failed() {
					w.violate("C15/reply", "mode %s, %s %v: no reply", modeName, wr.name, sc.args)
				}
				return
			}
			if mustReject != "" {
				// scripts wrap the inner error into a script error: the text is still inside
				if !isErr(v, mustReject, wr.http) {
					w.violate("C15/gate", "mode %s, %s [%s]: expected an error containing %q, got %s", modeName, wr.name, clipStr(strings.Join(sc.args, " "), 120), mustReject, clipStr(v.String(), 200))
					return
				}
				if changed {
					w.violate("C15/changed", "mode %s, %s [%s]: the command was rejected (%s) but the dataset, log size or mode changed", modeName, wr.name, clipStr(strings.Join(sc.args, " "), 120), clipStr(v.String(), 80))
					return
				}
				w.stat("c15.rejections_checked", 1)
			} else if sc.class == ccExempt && mode == 3 && wr.name == "plain" {
				if isErr(v, "", wr.http) && !wr.http {
					w.violate("C15/exempt", "mode %s: %v must be answered without authentication, got %s", modeName, sc.args, v.String())
					return
				}
			} else if (sc.class == ccRead || sc.class == ccMeta) && (mode == 1 || mode == 2 || mode == 4 || mode == 6) {
				if isErr(v, "", wr.http) {
					w.violate("C15/control", "mode %s, %s [%s]: a read that must be served was answered %s", modeName, wr.name, strings.Join(sc.args, " "), clipStr(v.String(), 160))
					return
				}
			}
		}
	}
	if mode == 6 && !w.failed() {
		c15ModeRace(w, target)
	}
	w.stat("c15.commands_sent", checked)
	w.nontriv = checked >= 50
	w.sigExtra = fmt.Sprintf("mode%d/%v/seed%d", mode, midSync, w.seed)
	w.sample = map[string]interface{}{"seed": w.seed, "mode": modeName, "commands_sent": checked, "wrappers": func() []string {
		var s []string
		for _, x := range wraps {
			s = append(s, x.name)
		}
		return s
	}()}
}

// c15ModeRace (a directed schedule): a plain write is sent and its lock request held back; on
// another connection READONLY yes is granted and acknowledged; then the write is let through.
// The server had acknowledged being read-only before the write could execute: it must be refused
// and change nothing - the mode test belongs to the same critical section as the write.
func c15ModeRace(w *World, n *Node) {
	inst := n.inst
	admin := newObserver(w, n)
	admin.a.from = "127.0.0.1:50077"
	for _, c := range [][]string{
		{"SET", "race", "x", "POINT", "1", "1"},
		{"FSET", "fleet", "truck1", "raced", "1"},
		{"DEL", "fleet", "truck1"},
		{"EVAL", "return tile38.call('SET', 'race', 'y', 'POINT', 2, 2)", "0"},
	} {
		wa := w.addActor(n, "127.0.0.1:50078", []Cmd{{Args: c}})
		wa.paused = true
		inst.lock.holdConn = fmt.Sprintf("a%02d#", wa.id)
		before := fmt.Sprintf("%s|aof=%d", inst.dump().text(true), inst.srv.aofsz)
		wa.paused = false
		w.Settle()
		held := false
		for _, r := range inst.lock.pending {
			if r.conn != nil && strings.HasPrefix(r.conn.name, inst.lock.holdConn) {
				held = true
			}
		}
		v, ok := admin.do("READONLY", "yes")
		inst.lock.holdConn = ""
		if !ok || v.String() != "+OK" {
			if !w.failed() {
				w.harnessErr("mode race: READONLY yes answered %s", v.String())
			}
			return
		}
		w.Drain(10*time.Second, func() bool { return len(wa.ops) > 0 && wa.ops[0].Return >= 0 })
		w.Settle()
		if w.failed() {
			return
		}
		if len(wa.ops) == 0 || wa.ops[0].Return < 0 {
			w.harnessErr("mode race: [%s] got no reply", strings.Join(c, " "))
			return
		}
		if held {
			w.stat("probe.write_held_across_mode_switch", 1)
			after := fmt.Sprintf("%s|aof=%d", inst.dump().text(true), inst.srv.aofsz)
			if !wa.ops[0].Reply.isErr() || after != before {
				w.violate("C15/gate", "[%s] was waiting for the lock when READONLY yes was granted and acknowledged; it was then answered %s and the dataset/log changed=%v: a read-only server executed a write",
					clipStr(strings.Join(c, " "), 100), clipStr(wa.ops[0].Reply.String(), 100), after != before)
				return
			}
		}
		if v, ok := admin.do("READONLY", "no"); !ok || v.String() != "+OK" {
			if !w.failed() {
				w.harnessErr("mode race: READONLY no answered %s", v.String())
			}
			return
		}
	}
}
