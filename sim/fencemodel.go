package server

// Reference semantics of static geofences (documentation table), for point
// objects and margin-safe positions. Independent of tile38's predicates:
// inside/outside by haversine distance or rectangle comparison, crossing by
// sampling the straight path.

import (
	"encoding/json"
	"fmt"
	"math"
	"sort"
	"strconv"
	"strings"
)

type fenceArea struct {
	circle                         bool
	lat, lon, meters               float64 // circle
	minLat, minLon, maxLat, maxLon float64 // rectangle
	// syntax: how the area is written in the command. "" = POINT (NEARBY) or CIRCLE (WITHIN /
	// INTERSECTS) for circles, BOUNDS for rectangles; rectangles may also be written as "object"
	// (a GeoJSON polygon), "hash" (a geohash cell, in hash) or "get" (a reference to a stored
	// BOUNDS object: GET areas <id>)
	syntax string
	hash   string
}

// areaRefID names the stored object a "get" area refers to; it carries the rectangle so that
// the definition can be read back from the command alone.
func (a *fenceArea) areaRefID() string {
	return fmt.Sprintf("z_%s_%s_%s_%s", fnum(a.minLat), fnum(a.minLon), fnum(a.maxLat), fnum(a.maxLon))
}

type fenceDef struct {
	name             string
	key              string
	cmd              string // nearby | within | intersects
	area             fenceArea
	detect           map[string]bool // nil = all
	accept           map[string]bool // COMMANDS filter, nil = all
	glob             string          // MATCH pattern on ids ("" = all)
	whereF           string          // WHERE field min max ("" = none)
	whereLo, whereHi float64
	nofields         bool
}

// args renders the fence as the tail of SETHOOK / SETCHAN / a live command.
func (f *fenceDef) args() []string {
	a := []string{strings.ToUpper(f.cmd), f.key}
	if f.glob != "" {
		a = append(a, "MATCH", f.glob)
	}
	if f.whereF != "" {
		a = append(a, "WHERE", f.whereF, fnum(f.whereLo), fnum(f.whereHi))
	}
	if f.nofields {
		a = append(a, "NOFIELDS")
	}
	a = append(a, "FENCE")
	if f.detect != nil {
		var d []string
		for k := range f.detect {
			d = append(d, k)
		}
		sort.Strings(d)
		a = append(a, "DETECT", strings.Join(d, ","))
	}
	if f.accept != nil {
		var d []string
		for k := range f.accept {
			d = append(d, k)
		}
		sort.Strings(d)
		a = append(a, "COMMANDS", strings.Join(d, ","))
	}
	ar := &f.area
	switch {
	case ar.circle && f.cmd == "nearby":
		a = append(a, "POINT", fnum(ar.lat), fnum(ar.lon), fnum(ar.meters))
	case ar.circle:
		a = append(a, "CIRCLE", fnum(ar.lat), fnum(ar.lon), fnum(ar.meters))
	case ar.syntax == "object":
		a = append(a, "OBJECT", fmt.Sprintf(`{"type":"Polygon","coordinates":[[[%s,%s],[%s,%s],[%s,%s],[%s,%s],[%s,%s]]]}`,
			fnum(ar.minLon), fnum(ar.minLat), fnum(ar.maxLon), fnum(ar.minLat), fnum(ar.maxLon), fnum(ar.maxLat),
			fnum(ar.minLon), fnum(ar.maxLat), fnum(ar.minLon), fnum(ar.minLat)))
	case ar.syntax == "hash":
		a = append(a, "HASH", ar.hash)
	case ar.syntax == "get":
		a = append(a, "GET", "areas", ar.areaRefID())
	default:
		a = append(a, "BOUNDS", fnum(ar.minLat), fnum(ar.minLon), fnum(ar.maxLat), fnum(ar.maxLon))
	}
	return a
}

func haversine(lat1, lon1, lat2, lon2 float64) float64 {
	const R = 6371e3
	p1, p2 := lat1*math.Pi/180, lat2*math.Pi/180
	dp, dl := (lat2-lat1)*math.Pi/180, (lon2-lon1)*math.Pi/180
	a := math.Sin(dp/2)*math.Sin(dp/2) + math.Cos(p1)*math.Cos(p2)*math.Sin(dl/2)*math.Sin(dl/2)
	return R * 2 * math.Atan2(math.Sqrt(a), math.Sqrt(1-a))
}

// where reports: +1 clearly inside, -1 clearly outside, 0 too close to the border to call.
func (a *fenceArea) where(lat, lon float64) int {
	if a.circle {
		d := haversine(a.lat, a.lon, lat, lon)
		switch {
		case d < 0.8*a.meters:
			return 1
		case d > 1.25*a.meters:
			return -1
		}
		return 0
	}
	mLat, mLon := (a.maxLat-a.minLat)*0.05, (a.maxLon-a.minLon)*0.05
	if lat > a.minLat+mLat && lat < a.maxLat-mLat && lon > a.minLon+mLon && lon < a.maxLon-mLon {
		return 1
	}
	if lat < a.minLat-mLat || lat > a.maxLat+mLat || lon < a.minLon-mLon || lon > a.maxLon+mLon {
		return -1
	}
	return 0
}

// crosses: +1 the straight path clearly passes through the area, -1 clearly
// misses it, 0 unclear. Both end points are outside.
func (a *fenceArea) crosses(lat1, lon1, lat2, lon2 float64) int {
	in, near := false, false
	const N = 400
	for i := 0; i <= N; i++ {
		t := float64(i) / N
		switch a.where(lat1+(lat2-lat1)*t, lon1+(lon2-lon1)*t) {
		case 1:
			in = true
		case 0:
			near = true
		}
	}
	if in {
		return 1
	}
	if near {
		return 0
	}
	return -1
}

func pointOf(o *mObj) (lat, lon float64, ok bool) {
	if o == nil || !o.spatial || o.kind != "point" {
		return 0, 0, false
	}
	var p struct {
		Coordinates []float64 `json:"coordinates"`
	}
	if json.Unmarshal([]byte(o.json), &p) != nil || len(p.Coordinates) < 2 {
		return 0, 0, false
	}
	return p.Coordinates[1], p.Coordinates[0], true
}

// rectOf returns the rectangle of a BOUNDS object (stored as an axis-aligned polygon).
func rectOf(o *mObj) (minLat, minLon, maxLat, maxLon float64, ok bool) {
	if o == nil || !o.spatial || o.kind != "bounds" {
		return
	}
	var p struct {
		Coordinates [][][]float64 `json:"coordinates"`
	}
	if json.Unmarshal([]byte(o.json), &p) != nil || len(p.Coordinates) != 1 || len(p.Coordinates[0]) != 5 {
		return
	}
	minLat, minLon, maxLat, maxLon = 90, 180, -90, -180
	for _, c := range p.Coordinates[0] {
		if len(c) < 2 {
			return 0, 0, 0, 0, false
		}
		minLon, maxLon = math.Min(minLon, c[0]), math.Max(maxLon, c[0])
		minLat, maxLat = math.Min(minLat, c[1]), math.Max(maxLat, c[1])
	}
	return minLat, minLon, maxLat, maxLon, true
}

// whereRect classifies a rectangle object against a rectangular area under WITHIN (the object
// lies entirely in the area) or INTERSECTS (they share a point): +1 clearly yes, -1 clearly no,
// 0 too close to call. Circles are outside this reference (0).
func (a *fenceArea) whereRect(cmd string, minLat, minLon, maxLat, maxLon float64) int {
	if a.circle {
		return 0
	}
	mLat, mLon := (a.maxLat-a.minLat)*0.05, (a.maxLon-a.minLon)*0.05
	switch cmd {
	case "within":
		if minLat > a.minLat+mLat && maxLat < a.maxLat-mLat && minLon > a.minLon+mLon && maxLon < a.maxLon-mLon {
			return 1
		}
		if minLat < a.minLat-mLat || maxLat > a.maxLat+mLat || minLon < a.minLon-mLon || maxLon > a.maxLon+mLon {
			return -1
		}
	case "intersects":
		if maxLat > a.minLat+mLat && minLat < a.maxLat-mLat && maxLon > a.minLon+mLon && minLon < a.maxLon-mLon {
			return 1
		}
		if maxLat < a.minLat-mLat || minLat > a.maxLat+mLat || maxLon < a.minLon-mLon || minLon > a.maxLon+mLon {
			return -1
		}
	}
	return 0
}

// place classifies an object (point or rectangle) against the fence: sp = +1 / -1 / 0 as above;
// (cLat, cLon) is the centre its straight path is drawn through; (rLat, rLon) the coordinate pair
// a notification is recognised by (the point, or the rectangle's first corner).
func (f *fenceDef) place(o *mObj) (sp int, cLat, cLon, rLat, rLon float64, ok bool) {
	if lat, lon, isPt := pointOf(o); isPt {
		return f.area.where(lat, lon), lat, lon, lat, lon, true
	}
	if a, b, c, d, isRect := rectOf(o); isRect {
		return f.area.whereRect(f.cmd, a, b, c, d), (a + c) / 2, (b + d) / 2, a, b, true
	}
	return 0, 0, 0, 0, 0, false
}

type fenceMsg struct {
	command  string
	detect   string
	id       string
	lat, lon float64
	fields   string
	// optional: a 'del' for an object that was not inside (the property only
	// promises the message for objects inside the area)
	optional bool
}

func (m fenceMsg) String() string {
	if m.command == "del" || m.command == "drop" {
		return fmt.Sprintf("%s %s", m.command, m.id)
	}
	return fmt.Sprintf("%s/%s %s@%s,%s %s", m.command, m.detect, m.id, fnum(m.lat), fnum(m.lon), m.fields)
}

func (f *fenceDef) passes(id string, o *mObj) bool {
	if f.glob != "" && !globMatch(f.glob, id) {
		return false
	}
	if f.whereF == "z" {
		// the third coordinate of a point (0 when it has none): not a field, so it changes with
		// a plain SET
		v := 0.0
		var p struct {
			Coordinates []float64 `json:"coordinates"`
		}
		if o.kind == "point" && json.Unmarshal([]byte(o.json), &p) == nil && len(p.Coordinates) >= 3 {
			v = p.Coordinates[2]
		}
		if v < f.whereLo || v > f.whereHi {
			return false
		}
	} else if f.whereF != "" {
		v := 0.0
		if s, ok := o.fields[f.whereF]; ok {
			x, err := strconv.ParseFloat(s, 64)
			if err != nil {
				return false
			}
			v = x
		}
		if v < f.whereLo || v > f.whereHi {
			return false
		}
	}
	return true
}

func fieldsJSONish(o *mObj, nofields bool) string {
	if nofields || o == nil {
		return ""
	}
	return fieldsExpect(o.fields)
}

// expected returns the notifications one applied write must produce for this
// fence. ambiguous=true means a position was too close to the border to call.
func (f *fenceDef) expected(e *lmEntry, before, after *Model) (msgs []fenceMsg, ambiguous bool) {
	cmd := lower(e.args[0])
	filter := func(ms []fenceMsg) []fenceMsg {
		var out []fenceMsg
		for _, m := range ms {
			if f.accept != nil && !f.accept[m.command] {
				continue
			}
			out = append(out, m)
		}
		return out
	}
	delMsg := func(key, id string, old *mObj) []fenceMsg {
		if key != f.key || old == nil || !old.spatial {
			return nil
		}
		if f.glob != "" && !globMatch(f.glob, id) {
			return nil
		}
		sp, _, _, _, _, ok := f.place(old)
		inside := ok && sp == 1
		if ok && sp == 0 {
			ambiguous = true
		}
		// promised only for objects inside the area of a fence with default detection
		return []fenceMsg{{command: "del", id: id, optional: !(inside && f.detect == nil)}}
	}
	switch cmd {
	case "del":
		return filter(delMsg(e.args[1], e.args[2], before.get(e.args[1], e.args[2]))), ambiguous
	case "pdel":
		if e.args[1] != f.key {
			return nil, false
		}
		var out []fenceMsg
		col := before.cols[f.key]
		for _, id := range sortedIDs(col) {
			if globMatch(e.args[2], id) {
				out = append(out, delMsg(f.key, id, col[id])...)
			}
		}
		return filter(out), ambiguous
	case "drop":
		if e.args[1] != f.key || before.cols[f.key] == nil {
			return nil, false
		}
		// promised for fences with default detection only
		return filter([]fenceMsg{{command: "drop", id: "", optional: f.detect != nil}}), false
	case "flushdb", "rename", "renamenx", "expire", "persist", "jset", "jdel", "sethook", "setchan", "delhook", "delchan", "pdelhook", "pdelchan":
		return nil, false
	case "set", "fset":
	default:
		return nil, false
	}
	if e.args[1] != f.key {
		return nil, false
	}
	id := e.args[2]
	nw := after.get(f.key, id)
	old := before.get(f.key, id)
	if nw == nil || !nw.spatial {
		return nil, false
	}
	if f.glob != "" && !globMatch(f.glob, id) {
		return nil, false
	}
	newSp, ncLat, ncLon, lat, lon, ok := f.place(nw)
	if !ok {
		return nil, true // neither a point nor a rectangle: outside the reference semantics
	}
	if newSp == 0 {
		return nil, true
	}
	newIn := newSp == 1 && f.passes(id, nw)
	mk := func(detect string) fenceMsg {
		return fenceMsg{command: cmd, detect: detect, id: id, lat: lat, lon: lon, fields: fieldsJSONish(nw, f.nofields)}
	}
	var detect string
	if cmd == "fset" {
		if f.nofields {
			return nil, false
		}
		// FSET does not move the object: it is reported where it is
		if f.whereF != "" {
			return nil, true // how WHERE applies to FSET notifications is not documented
		}
		if newIn {
			detect = "inside"
		} else {
			if !f.passes(id, nw) {
				return nil, false
			}
			detect = "outside"
		}
	} else {
		oldIn := false
		oldSp := -1
		var olat, olon float64
		if old != nil && old.spatial {
			var ok2 bool
			oldSp, olat, olon, _, _, ok2 = f.place(old)
			if !ok2 {
				return nil, true
			}
			if oldSp == 0 {
				return nil, true
			}
			oldIn = oldSp == 1 && f.passes(id, old)
		}
		switch {
		case oldIn && newIn:
			detect = "inside"
		case oldIn && !newIn:
			detect = "exit"
		case !oldIn && newIn:
			detect = "enter"
		default:
			if !f.passes(id, nw) {
				return nil, false
			}
			detect = "outside"
			// both end points (spatially) outside: does the straight path cross the area?
			if old != nil && old.spatial && oldSp == -1 && newSp == -1 {
				// (the path is drawn between the centres; a rectangle that is "outside" a WITHIN
				// fence may have its centre in or near the area: that is not called here)
				if f.area.where(olat, olon) != -1 || f.area.where(ncLat, ncLon) != -1 {
					return nil, true
				}
				switch f.area.crosses(olat, olon, ncLat, ncLon) {
				case 1:
					detect = "cross"
				case 0:
					return nil, true
				}
			}
		}
	}
	// detect-filter fallbacks and follow-up messages
	for f.detect != nil && !f.detect[detect] {
		switch detect {
		case "enter":
			detect = "inside"
		case "exit", "cross":
			detect = "outside"
		default:
			return nil, false
		}
	}
	out := []fenceMsg{mk(detect)}
	switch detect {
	case "enter":
		if f.detect == nil || f.detect["inside"] {
			out = append(out, mk("inside"))
		}
	case "exit", "cross":
		if f.detect == nil || f.detect["outside"] {
			out = append(out, mk("outside"))
		}
	}
	return filter(out), false
}

// parseFenceMsg extracts the comparable part of a delivered notification.
func parseFenceMsg(body string) (fenceMsg, string, error) {
	var raw struct {
		Command string                 `json:"command"`
		Detect  string                 `json:"detect"`
		Hook    string                 `json:"hook"`
		Key     string                 `json:"key"`
		ID      string                 `json:"id"`
		Group   string                 `json:"group"`
		Object  map[string]interface{} `json:"object"`
		Fields  map[string]interface{} `json:"fields"`
	}
	if err := json.Unmarshal([]byte(body), &raw); err != nil {
		return fenceMsg{}, "", fmt.Errorf("notification is not JSON: %v: %s", err, clipStr(body, 120))
	}
	m := fenceMsg{command: raw.Command, detect: raw.Detect, id: raw.ID}
	if raw.Object != nil {
		if c, ok := raw.Object["coordinates"].([]interface{}); ok && len(c) >= 1 {
			if ring, isRing := c[0].([]interface{}); isRing && len(ring) > 0 {
				// a polygon: recognised by its first corner
				if pt, isPt := ring[0].([]interface{}); isPt && len(pt) >= 2 {
					m.lon, _ = pt[0].(float64)
					m.lat, _ = pt[1].(float64)
				}
			} else if len(c) >= 2 {
				m.lon, _ = c[0].(float64)
				m.lat, _ = c[1].(float64)
			}
		}
	}
	if raw.Fields != nil {
		fm := map[string]string{}
		for k, v := range raw.Fields {
			switch x := v.(type) {
			case float64:
				fm[k] = fnum(x)
			case string:
				fm[k] = canonField(fkString, x)
			case bool:
				fm[k] = strconv.FormatBool(x)
			default:
				b, _ := json.Marshal(x)
				fm[k] = string(b)
			}
		}
		m.fields = fieldsExpect(fm)
	} else if raw.Command == "set" || raw.Command == "fset" {
		m.fields = "[]"
	}
	return m, raw.Hook + "|" + raw.Group, nil
}

// compareFenceSeq checks a receiver's sequence against the expected one.
// Optional expected messages may be absent.
func compareFenceSeq(want []fenceMsg, got []fenceMsg, nofields bool) error {
	// With optional elements a received message may equal an optional expected one AND a later
	// required one (two deletes of the same id, the first beyond the retention of a failing
	// endpoint): taking the earliest match is then wrong. Decide by dynamic programming whether
	// the received sequence is the expected one with some optional elements left out; the
	// left-to-right walk below only words the complaint.
	hasOpt := false
	for _, m := range want {
		hasOpt = hasOpt || m.optional
	}
	if hasOpt {
		n, k := len(want), len(got)
		prev := make([]bool, k+1) // prev[i]: got[:i] explained by want[:j-1]
		prev[0] = true
		for j := 1; j <= n; j++ {
			cur := make([]bool, k+1)
			for i := 0; i <= k; i++ {
				if want[j-1].optional && prev[i] {
					cur[i] = true
				}
				if i > 0 && prev[i-1] && sameFenceMsg(want[j-1], got[i-1], nofields) {
					cur[i] = true
				}
			}
			prev = cur
		}
		if prev[k] {
			return nil
		}
	}
	i, j := 0, 0
	for i < len(want) || j < len(got) {
		if i < len(want) && j < len(got) && sameFenceMsg(want[i], got[j], nofields) {
			i++
			j++
			continue
		}
		if i < len(want) && want[i].optional {
			i++
			continue
		}
		if i >= len(want) {
			return fmt.Errorf("unexpected extra notification #%d: %s", j+1, got[j])
		}
		if j >= len(got) {
			return fmt.Errorf("missing notification #%d: %s (received %d)", i+1, want[i], len(got))
		}
		return fmt.Errorf("notification #%d: got %s want %s", j+1, got[j], want[i])
	}
	return nil
}

func sameFenceMsg(w, g fenceMsg, nofields bool) bool {
	if w.command != g.command || w.id != g.id {
		return false
	}
	if w.command == "del" || w.command == "drop" {
		return true
	}
	if w.detect != g.detect || math.Abs(w.lat-g.lat) > 1e-9 || math.Abs(w.lon-g.lon) > 1e-9 {
		return false
	}
	if nofields {
		return true
	}
	wf := w.fields
	if wf == "" {
		wf = "[]"
	}
	return wf == g.fields
}
