package server

// Client actors: scheduler-owned RESP clients (no goroutines).

import (
	"encoding/base64"
	"encoding/json"
	"fmt"
	"regexp"
	"strconv"
	"strings"
	"time"
	"unicode/utf8"
)

// rv is a parsed RESP value.
type rv struct {
	T byte // '+', '-', ':', '$', '*', '_' (null)
	S string
	N int64
	A []rv
}

func (v rv) String() string {
	switch v.T {
	case '+':
		return "+" + v.S
	case '-':
		return "-" + v.S
	case ':':
		return ":" + strconv.FormatInt(v.N, 10)
	case '$':
		return strconv.Quote(v.S)
	case '_':
		return "nil"
	case '*':
		parts := make([]string, len(v.A))
		for i, x := range v.A {
			parts[i] = x.String()
		}
		return "[" + strings.Join(parts, " ") + "]"
	}
	return "?"
}

func (v rv) isErr() bool { return v.T == '-' }

// parseRESP parses one value from b. ok=false means incomplete.
func parseRESP(b []byte) (v rv, n int, ok bool, err error) {
	if len(b) == 0 {
		return v, 0, false, nil
	}
	line := func(from int) (string, int, bool) {
		for i := from; i+1 < len(b); i++ {
			if b[i] == '\r' && b[i+1] == '\n' {
				return string(b[from:i]), i + 2, true
			}
		}
		return "", 0, false
	}
	switch b[0] {
	case '+', '-':
		s, e, ok := line(1)
		if !ok {
			return v, 0, false, nil
		}
		return rv{T: b[0], S: s}, e, true, nil
	case ':':
		s, e, ok := line(1)
		if !ok {
			return v, 0, false, nil
		}
		x, perr := strconv.ParseInt(s, 10, 64)
		if perr != nil {
			return v, 0, false, fmt.Errorf("bad integer %q", s)
		}
		return rv{T: ':', N: x}, e, true, nil
	case '$':
		s, e, ok := line(1)
		if !ok {
			return v, 0, false, nil
		}
		x, perr := strconv.Atoi(s)
		if perr != nil {
			return v, 0, false, fmt.Errorf("bad bulk length %q", s)
		}
		if x < 0 {
			return rv{T: '_'}, e, true, nil
		}
		if len(b) < e+x+2 {
			return v, 0, false, nil
		}
		if b[e+x] != '\r' || b[e+x+1] != '\n' {
			return v, 0, false, fmt.Errorf("bulk not terminated by CRLF")
		}
		return rv{T: '$', S: string(b[e : e+x])}, e + x + 2, true, nil
	case '*':
		s, e, ok := line(1)
		if !ok {
			return v, 0, false, nil
		}
		x, perr := strconv.Atoi(s)
		if perr != nil {
			return v, 0, false, fmt.Errorf("bad array length %q", s)
		}
		if x < 0 {
			return rv{T: '_'}, e, true, nil
		}
		out := rv{T: '*', A: make([]rv, 0, x)}
		pos := e
		for i := 0; i < x; i++ {
			el, m, ok, err := parseRESP(b[pos:])
			if err != nil || !ok {
				return v, 0, ok, err
			}
			out.A = append(out.A, el)
			pos += m
		}
		return out, pos, true, nil
	}
	return v, 0, false, fmt.Errorf("bad RESP type byte %q", b[0])
}

func encodeCmd(args []string) []byte {
	var b []byte
	b = append(b, '*')
	b = strconv.AppendInt(b, int64(len(args)), 10)
	b = append(b, '\r', '\n')
	for _, a := range args {
		b = append(b, '$')
		b = strconv.AppendInt(b, int64(len(a)), 10)
		b = append(b, '\r', '\n')
		b = append(b, a...)
		b = append(b, '\r', '\n')
	}
	return b
}

// Cmd is one step of an actor's program.
type Cmd struct {
	Args   []string `json:"args,omitempty"`
	Raw    string   `json:"raw,omitempty"`    // literal bytes instead of Args
	Pipe   bool     `json:"pipe,omitempty"`   // may be sent without waiting for earlier replies
	GoLive bool     `json:"golive,omitempty"` // connection becomes a stream after this
	Tag    string   `json:"tag,omitempty"`
	// Inner: for scripts, the data-modifying commands the script performs
	Inner [][]string `json:"inner,omitempty"`
	// HTTP: Raw is an HTTP request; the reply is the response body
	HTTP bool `json:"http,omitempty"`
	// Connect: only open the connection and wait for what the server says
	Connect bool `json:"connect,omitempty"`
}

// Replay files are JSON; arguments are arbitrary bytes (C04 and C16 write NUL, 0xFF, ...).
// encoding/json would replace invalid UTF-8 by U+FFFD and silently change the program, so such
// commands travel base64-encoded.
type cmdPlain Cmd

type cmdWire struct {
	cmdPlain
	ArgsB64 []string `json:"args_b64,omitempty"`
	RawB64  string   `json:"raw_b64,omitempty"`
}

func (c Cmd) MarshalJSON() ([]byte, error) {
	w := cmdWire{cmdPlain: cmdPlain(c)}
	bin := false
	for _, a := range c.Args {
		if !utf8.ValidString(a) {
			bin = true
		}
	}
	if bin {
		w.Args = nil
		for _, a := range c.Args {
			w.ArgsB64 = append(w.ArgsB64, base64.StdEncoding.EncodeToString([]byte(a)))
		}
	}
	if !utf8.ValidString(c.Raw) {
		w.Raw = ""
		w.RawB64 = base64.StdEncoding.EncodeToString([]byte(c.Raw))
	}
	return json.Marshal(w)
}

func (c *Cmd) UnmarshalJSON(b []byte) error {
	var w cmdWire
	if err := json.Unmarshal(b, &w); err != nil {
		return err
	}
	*c = Cmd(w.cmdPlain)
	if len(w.ArgsB64) > 0 {
		c.Args = nil
		for _, a := range w.ArgsB64 {
			d, err := base64.StdEncoding.DecodeString(a)
			if err != nil {
				return err
			}
			c.Args = append(c.Args, string(d))
		}
	}
	if w.RawB64 != "" {
		d, err := base64.StdEncoding.DecodeString(w.RawB64)
		if err != nil {
			return err
		}
		c.Raw = string(d)
	}
	return nil
}

func (c Cmd) String() string {
	if c.Raw != "" {
		return "RAW " + strconv.Quote(c.Raw)
	}
	return strings.Join(c.Args, " ")
}

type Op struct {
	Client   int
	Idx      int
	Cmd      Cmd
	Invoke   int
	Return   int // -1 until a reply arrives
	InvokeT  time.Duration
	ReturnT  time.Duration
	Reply    rv
	ConnGen  int
	Lost     bool // connection died before a reply
	Applied  int  // scripts: how many of Cmd.Inner were found in the log
	NodeName string
}

func (o *Op) name() string {
	if len(o.Cmd.Args) == 0 {
		return ""
	}
	return strings.ToLower(o.Cmd.Args[0])
}

type streamItem struct {
	Step int
	T    time.Duration
	V    rv
}

type Actor struct {
	sim    *Sim
	id     int
	node   *Node // target
	from   simAddr
	end    *connEnd
	gen    int
	prog   []Cmd
	next   int
	outst  []*Op
	ops    []*Op
	rbuf   []byte
	live   bool
	stream []streamItem
	paused bool
	closed bool
	perr   error
	// options
	reconnect bool
	onReply   func(op *Op)
	onStream  func(it streamItem)
	weight    int
	rawIn     []byte // every byte received (C16)
	keepRaw   bool
	// sendTogether: consecutive pipelined commands leave in ONE write
	sendTogether bool
	// rawOnly: replies are not parsed, only collected in rawIn
	rawOnly bool
}

func (s *Sim) addActor(node *Node, from simAddr, prog []Cmd) *Actor {
	a := &Actor{sim: s, id: len(s.actors) + 1, node: node, from: from, prog: prog, reconnect: true}
	s.actors = append(s.actors, a)
	return a
}

func (a *Actor) done() bool { return a.next >= len(a.prog) && len(a.outst) == 0 }

func (a *Actor) connected() bool {
	return a.end != nil && !a.closed && !a.end.reset && !a.end.closed
}

func (a *Actor) actions() []action {
	if a.paused || a.next >= len(a.prog) || a.live {
		return nil
	}
	c := a.prog[a.next]
	if len(a.outst) > 0 && !c.Pipe {
		return nil
	}
	if !a.connected() {
		if a.end != nil && !a.reconnect {
			return nil
		}
		n := a.node
		if n.inst == nil || n.inst.dead || !n.inst.ready() {
			return nil
		}
	}
	return []action{{kind: akClient, key: fmt.Sprintf("a%02d op%03d", a.id, a.next), w: a.weight,
		run: func() { a.issue() }}}
}

func (a *Actor) connect() bool {
	s := a.sim
	e, err := s.dial(fmt.Sprintf("a%02d", a.id), a.from, a.node.addr)
	if err != nil {
		return false
	}
	a.gen++
	a.end = e
	a.closed = false
	a.live = false
	a.rbuf = nil
	e.onData = a.onData
	e.onEOF = a.onEOF
	s.logf("  a%02d connected %s", a.id, e.c.name)
	return true
}

func (a *Actor) issue() {
	s := a.sim
	if !a.connected() {
		// outstanding ops of the old connection are lost
		a.loseOutstanding()
		if !a.connect() {
			s.logf("  a%02d connect refused", a.id)
			return
		}
	}
	c := a.prog[a.next]
	op := &Op{Client: a.id, Idx: a.next, Cmd: c, Invoke: s.step, InvokeT: s.now(), Return: -1,
		ConnGen: a.gen, NodeName: a.node.name}
	a.next++
	a.ops = append(a.ops, op)
	a.outst = append(a.outst, op)
	var b []byte
	if c.Raw != "" {
		b = []byte(c.Raw)
	} else if !c.Connect {
		b = encodeCmd(c.Args)
	}
	s.logf("  a%02d> %s", a.id, clipStr(c.String(), 160))
	if c.Connect {
		return
	}
	if c.GoLive {
		a.live = true
	}
	// optionally put the following pipelined commands into the same segment
	for a.sendTogether && !a.live && a.next < len(a.prog) && a.prog[a.next].Pipe {
		c2 := a.prog[a.next]
		op2 := &Op{Client: a.id, Idx: a.next, Cmd: c2, Invoke: s.step, InvokeT: s.now(), Return: -1,
			ConnGen: a.gen, NodeName: a.node.name}
		a.next++
		a.ops = append(a.ops, op2)
		a.outst = append(a.outst, op2)
		if c2.Raw != "" {
			b = append(b, c2.Raw...)
		} else {
			b = append(b, encodeCmd(c2.Args)...)
		}
		s.logf("  a%02d> %s (same segment)", a.id, clipStr(c2.String(), 160))
		if c2.GoLive {
			a.live = true
		}
	}
	a.end.Write(b)
}

var volatileRe = regexp.MustCompile(`\\?"group\\?":\\?"[0-9a-f]{24}\\?"`)

// maskVolatile hides values tile38 draws from process-global randomness
// (group ids) so that event logs are comparable between executions.
func maskVolatile(s string) string {
	if !strings.Contains(s, "group") {
		return s
	}
	return volatileRe.ReplaceAllString(s, `"group":"G"`)
}

func clipStr(s string, n int) string {
	s = maskVolatile(s)
	if len(s) > n {
		return s[:n] + fmt.Sprintf("...(%d)", len(s))
	}
	return s
}

func (a *Actor) loseOutstanding() {
	for _, op := range a.outst {
		op.Lost = true
	}
	a.outst = nil
}

func (a *Actor) onEOF() {
	a.closed = true
	a.sim.logf("  a%02d eof", a.id)
	a.loseOutstanding()
}

func (a *Actor) onData(b []byte) {
	s := a.sim
	if a.keepRaw {
		a.rawIn = append(a.rawIn, b...)
	}
	if a.rawOnly {
		return
	}
	a.rbuf = append(a.rbuf, b...)
	for len(a.rbuf) > 0 {
		var v rv
		var n int
		var ok bool
		var err error
		if len(a.outst) > 0 && a.outst[0].Cmd.HTTP {
			v, n, ok = parseHTTPResponse(a.rbuf)
		} else {
			v, n, ok, err = parseRESP(a.rbuf)
		}
		if err != nil {
			a.perr = err
			s.logf("  a%02d parse error: %v", a.id, err)
			a.rbuf = nil
			return
		}
		if !ok {
			return
		}
		a.rbuf = a.rbuf[n:]
		if len(a.outst) > 0 && !(a.live && len(a.outst) == 1 && a.outst[0].Return >= 0) {
			op := a.outst[0]
			op.Return = s.step
			op.ReturnT = s.now()
			op.Reply = v
			if n := op.name(); n == "server" || n == "info" || strings.Contains(v.String(), "heap_size") || strings.Contains(v.String(), "used_memory") {
				// contains process memory statistics: not part of the replayable history
				s.logf("  a%02d< op%03d <%s reply, %d items>", a.id, op.Idx, n, len(v.A))
			} else {
				s.logf("  a%02d< op%03d %s", a.id, op.Idx, clipStr(v.String(), 200))
			}
			if op.Cmd.GoLive && !v.isErr() {
				// keep it as the head marker; everything else is stream
				a.outst = nil
				a.stream = append(a.stream, streamItem{Step: s.step, T: s.now(), V: v})
			} else {
				a.outst = a.outst[1:]
				if op.Cmd.GoLive && v.isErr() {
					a.live = false
				}
			}
			if a.onReply != nil {
				a.onReply(op)
			}
			continue
		}
		it := streamItem{Step: s.step, T: s.now(), V: v}
		a.stream = append(a.stream, it)
		s.logf("  a%02d<< %s", a.id, clipStr(v.String(), 200))
		if a.onStream != nil {
			a.onStream(it)
		}
	}
}

// sendLive lets a live (streaming) actor send a further command (e.g. another
// SUBSCRIBE, UNSUBSCRIBE, QUIT); replies arrive on the stream.
func (a *Actor) sendLive(args ...string) {
	if a.connected() {
		a.sim.logf("  a%02d>> %s", a.id, strings.Join(args, " "))
		a.end.Write(encodeCmd(args))
	}
}

func (a *Actor) close() {
	if a.end != nil {
		a.end.Close()
		a.closed = true
		a.loseOutstanding()
	}
}

// parseHTTPResponse parses one HTTP/1.1 response with Content-Length; the
// value is a bulk string "status\nbody".
func parseHTTPResponse(b []byte) (v rv, n int, ok bool) {
	i := strings.Index(string(b), "\r\n\r\n")
	if i < 0 {
		return v, 0, false
	}
	head := string(b[:i])
	lines := strings.Split(head, "\r\n")
	cl := 0
	for _, l := range lines[1:] {
		if k, val, found := strings.Cut(l, ":"); found && strings.EqualFold(strings.TrimSpace(k), "Content-Length") {
			cl, _ = strconv.Atoi(strings.TrimSpace(val))
		}
	}
	if len(b) < i+4+cl {
		return v, 0, false
	}
	return rv{T: '$', S: lines[0] + "\n" + string(b[i+4:i+4+cl])}, i + 4 + cl, true
}
