package server

// C19 audit: indexes, counters and registries from the inside.

import (
	"fmt"

	"github.com/tidwall/tile38/internal/collection"
)

func (inst *Inst) audit() error {
	srv := inst.srv
	var err error
	srv.cols.Scan(func(key string, col *collection.Collection) bool {
		if col.Count() == 0 {
			err = fmt.Errorf("collection %q is empty but exists", key)
			return false
		}
		if e := col.VerifAudit(); e != nil {
			err = fmt.Errorf("collection %q: %v", key, e)
			return false
		}
		return true
	})
	if err != nil {
		return err
	}
	// hook registries
	nOut, nExp, nTree, nCross := 0, 0, 0, 0
	srv.hooks.Ascend(nil, func(v interface{}) bool {
		h := v.(*Hook)
		if h.Fence != nil && (h.Fence.detect == nil || h.Fence.detect["outside"]) {
			nOut++
		}
		if !h.expires.IsZero() {
			nExp++
		}
		if h.Fence != nil && h.Fence.obj != nil {
			nTree++
			if h.Fence.detect["cross"] {
				nCross++
			}
		}
		return true
	})
	if srv.hooksOut.Len() != nOut {
		return fmt.Errorf("hooksOut holds %d hooks, %d registered hooks detect 'outside'", srv.hooksOut.Len(), nOut)
	}
	if srv.hookExpires.Len() != nExp {
		return fmt.Errorf("hook expiry queue holds %d hooks, %d registered hooks have a deadline", srv.hookExpires.Len(), nExp)
	}
	if srv.hookTree.Len() != nTree {
		return fmt.Errorf("hook spatial tree holds %d hooks, %d registered hooks have an area", srv.hookTree.Len(), nTree)
	}
	if srv.hookCross.Len() != nCross {
		return fmt.Errorf("hook cross tree holds %d hooks, %d registered hooks detect 'cross'", srv.hookCross.Len(), nCross)
	}
	if srv.groupHooks.Len() != srv.groupObjects.Len() {
		return fmt.Errorf("group maps disagree: %d by hook, %d by object", srv.groupHooks.Len(), srv.groupObjects.Len())
	}
	return nil
}

// auditHook returns a quiescent-point invariant running the audit whenever
// the protected state changed and nobody is inside an exclusive section.
func auditHook(w *World, instOf func() *Inst, class string) func() {
	var last uint64
	var lastInst *Inst
	return func() {
		inst := instOf()
		if inst == nil || inst.dead || inst.srv == nil || !inst.ready() || inst.lock.writer != nil || inst.atPoint != "" {
			return
		}
		// no interpreter may sit in the idle pool twice: two commands running at once (shared lock,
		// or EVALNA between its calls) would be handed the same one
		if pool := inst.srv.luapool; pool != nil && pool.m.TryLock() {
			seen := map[interface{}]bool{}
			dup := false
			for _, L := range pool.saved {
				if L != nil && seen[L] {
					dup = true
				}
				seen[L] = true
			}
			pool.m.Unlock()
			if dup {
				w.violate(class+"/interpreter-pool", "the same Lua interpreter is in the idle pool twice: the next two overlapping script-using commands share one interpreter")
				return
			}
		}
		d := inst.digest()
		if inst == lastInst && d == last {
			return
		}
		last, lastInst = d, inst
		w.stat("audit.runs", 1)
		if err := inst.audit(); err != nil {
			w.violate(class+"/audit", "%v", err)
		}
	}
}
