package server

// Webhook receiver actor: an HTTP endpoint owned by the scheduler.

import (
	"bytes"
	"fmt"
	"strconv"
	"strings"
	"sync"
	"time"
)

type hookDelivery struct {
	Step   int
	T      time.Duration
	Body   string
	Status int // what the actor answered (0 = no answer: closed or hung)
}

// Webhook is an actor-backed listener. For every POST it receives it answers
// according to mode(); all bodies are recorded with the answer given.
type Webhook struct {
	sim  *Sim
	addr simAddr
	lis  *simListener
	recv []hookDelivery
	// mode decides the answer for the next request: 200/201/202 ok, 500/503
	// failure, -1 close without answering, -2 never answer (client times out), -3 headers then a stalled body
	mode  func(body string) int
	conns int
	quiet bool
}

func (s *Sim) addWebhook(addr simAddr, mode func(body string) int) *Webhook {
	wh := &Webhook{sim: s, addr: addr, mode: mode}
	l := &simListener{sim: s, addr: addr}
	l.cond = sync.NewCond(&s.mu)
	l.actorAccept = wh.accept
	wh.lis = l
	s.mu.Lock()
	s.addrs[string(addr)] = l
	s.mu.Unlock()
	return wh
}

func (wh *Webhook) accept(e *connEnd) {
	wh.conns++
	var buf []byte
	e.onData = func(b []byte) {
		buf = append(buf, b...)
		for {
			i := bytes.Index(buf, []byte("\r\n\r\n"))
			if i < 0 {
				return
			}
			head := string(buf[:i])
			cl := 0
			for _, line := range strings.Split(head, "\r\n")[1:] {
				if k, v, ok := strings.Cut(line, ":"); ok && strings.EqualFold(strings.TrimSpace(k), "Content-Length") {
					cl, _ = strconv.Atoi(strings.TrimSpace(v))
				}
			}
			if len(buf) < i+4+cl {
				return
			}
			body := string(buf[i+4 : i+4+cl])
			buf = buf[i+4+cl:]
			st := 200
			if wh.mode != nil {
				st = wh.mode(body)
			}
			d := hookDelivery{Step: wh.sim.step, T: wh.sim.now(), Body: body, Status: st}
			if st < 0 {
				d.Status = 0
			}
			if !wh.quiet {
				wh.recv = append(wh.recv, d)
				wh.sim.logf("  webhook %s <- %s => %d", wh.addr, clipStr(body, 140), st)
			}
			switch {
			case st == -1:
				e.Close()
				return
			case st == -2:
				// never answer
			case st == -3:
				// answer 200 with headers, then stall in the middle of the body: for the sender this
				// request has not succeeded (it never sees the end of the response)
				e.Write([]byte("HTTP/1.1 200 OK\r\nContent-Length: 64\r\nConnection: keep-alive\r\n\r\n{\"partial\":"))
			default:
				text := map[int]string{200: "OK", 201: "Created", 202: "Accepted", 500: "Internal Server Error", 503: "Service Unavailable"}[st]
				e.Write([]byte(fmt.Sprintf("HTTP/1.1 %d %s\r\nContent-Length: 0\r\nConnection: keep-alive\r\n\r\n", st, text)))
			}
		}
	}
	e.onEOF = func() { e.Close() }
}
