package server

// The server's real spin lock (rwspinlock, used under --spinlock) as a unit under the seeded
// scheduler. The servers of every other configuration run with the scheduler-owned lock, so the
// lock primitive itself would otherwise never execute inside the simulation. bin/build compiles
// a copy of server.go in which the lock's atomic word is verifAtomicInt32: every Load, Add and
// CompareAndSwap is a yield point. A handful of goroutines take and release the lock as readers
// and writers, exactly one of them runs at a time, and the choice vector decides which; inside
// the critical section each goroutine checks that nobody who must be excluded is in there too.

import (
	"fmt"
	"reflect"
	"sync"
	"sync/atomic"
)

type verifAtomicInt32 struct{ v atomic.Int32 }

func (a *verifAtomicInt32) Load() int32 { lpYield(); return a.v.Load() }
func (a *verifAtomicInt32) Store(x int32) {
	lpYield()
	a.v.Store(x)
}
func (a *verifAtomicInt32) Add(d int32) int32 { lpYield(); return a.v.Add(d) }
func (a *verifAtomicInt32) Swap(x int32) int32 {
	lpYield()
	return a.v.Swap(x)
}
func (a *verifAtomicInt32) CompareAndSwap(o, n int32) bool {
	lpYield()
	return a.v.CompareAndSwap(o, n)
}

type lpSched struct {
	mu      sync.Mutex
	byGoid  map[uint64]*lpTask
	arrived chan *lpTask
}

type lpTask struct {
	idx    int
	resume chan struct{}
	done   bool
}

var lockprimSched atomic.Pointer[lpSched]

// lpYield parks a participating goroutine until the scheduler picks it again.
func lpYield() {
	s := lockprimSched.Load()
	if s == nil {
		return
	}
	s.mu.Lock()
	t := s.byGoid[curGoid()]
	s.mu.Unlock()
	if t == nil {
		return
	}
	s.arrived <- t
	<-t.resume
}

// lockPrimCheck explores interleavings of the real rwspinlock's atomic operations.
func lockPrimCheck(w *World, class string) {
	var probe rwspinlock
	f, ok := reflect.TypeOf(probe).FieldByName("state")
	if !ok || f.Type != reflect.TypeOf(verifAtomicInt32{}) {
		w.stat("lockprim.unavailable", 1)
		return
	}
	l := &rwspinlock{}
	nw := 2
	nr := 1 + w.ch.choose(2)
	n := nw + nr
	s := &lpSched{byGoid: map[uint64]*lpTask{}, arrived: make(chan *lpTask)}
	tasks := make([]*lpTask, n)
	writers, readers := 0, 0
	var bad string
	var wg sync.WaitGroup
	started := make(chan struct{})
	for i := 0; i < n; i++ {
		i := i
		t := &lpTask{idx: i, resume: make(chan struct{})}
		tasks[i] = t
		wg.Add(1)
		go func() {
			defer wg.Done()
			s.mu.Lock()
			s.byGoid[curGoid()] = t
			s.mu.Unlock()
			started <- struct{}{}
			<-t.resume // wait for the first turn
			for it := 0; it < 2; it++ {
				if i < nw {
					l.Lock()
					if writers > 0 || readers > 0 {
						bad = fmt.Sprintf("writer %d is inside the exclusive section together with %d other writer(s) and %d reader(s)", i, writers, readers)
					}
					writers++
					lpYield() // stay inside while others run
					writers--
					l.Unlock()
				} else {
					l.RLock()
					if writers > 0 {
						bad = fmt.Sprintf("reader %d holds the shared lock while %d writer(s) hold the exclusive one", i, writers)
					}
					readers++
					lpYield()
					readers--
					l.RUnlock()
				}
			}
			t.done = true
			s.arrived <- t
		}()
	}
	for i := 0; i < n; i++ {
		<-started
	}
	lockprimSched.Store(s)
	// every task is parked (before its first turn); run one at a time
	waiting := append([]*lpTask(nil), tasks...)
	steps := 0
	for len(waiting) > 0 && steps < 600 && bad == "" {
		steps++
		k := w.ch.choose(len(waiting))
		t := waiting[k]
		waiting = append(waiting[:k], waiting[k+1:]...)
		t.resume <- struct{}{}
		nt := <-s.arrived // the same task, at its next yield or at its end
		if !nt.done {
			waiting = append(waiting, nt)
			// keep a stable order: by task index
			for a := len(waiting) - 1; a > 0 && waiting[a].idx < waiting[a-1].idx; a-- {
				waiting[a], waiting[a-1] = waiting[a-1], waiting[a]
			}
		}
	}
	// let whatever is still parked run to its end without further interleaving control
	lockprimSched.Store(nil)
	for _, t := range waiting {
		t := t
		go func() {
			t.resume <- struct{}{}
		}()
	}
	go func() {
		for range s.arrived {
		}
	}()
	wg.Wait()
	close(s.arrived)
	w.stat("lockprim.steps", steps)
	w.stat("lockprim.runs", 1)
	if bad != "" {
		w.violate(class+"/lock-primitive", "rwspinlock (the server lock under --spinlock), %d writers and %d readers, atomic operations interleaved by the scheduler: %s", nw, nr, bad)
	}
}
