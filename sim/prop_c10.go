package server

// C10 - notifications and pub/sub: nothing lost, nothing duplicated, in write order.

import (
	"encoding/json"
	"fmt"
	"math/rand"
	"strings"
	"time"
)

func init() { registerProp("C10", runC10) }

// subMore: further names for a (P)SUBSCRIBE command that already names c - the other names of the
// same kind that publishers and fences use, and one nobody publishes to.
func subMore(c [2]string) []string {
	if c[0] == "psubscribe" {
		out := []string{}
		for _, nm := range []string{"hc*", "n*", "zz*"} {
			if nm != c[1] {
				out = append(out, nm)
			}
		}
		return out
	}
	out := []string{}
	for _, nm := range []string{"news", "hc0", "hc1", "quiet"} {
		if nm != c[1] {
			out = append(out, nm)
		}
	}
	return out
}

type pubEvent struct {
	channel string
	payload string // unique
	invoke  int    // step at which the causing command was sent
	ret     int    // step at which its reply was delivered (or the entry's step for expirations)
	src     string // publisher identity (for FIFO)
	seq     int    // order within src
}

type subWindow struct {
	kind     string // "subscribe" | "psubscribe"
	name     string // channel or pattern
	sendStep int
	ackStep  int // -1 until acknowledged
	unsubAt  int // step at which the unsubscribe was sent (-1 = never)
}

func runC10(w *World) {
	w.drawWeights()
	w.drawNet(w.knob)
	w.weights[akFault] = 0
	w.weights[akTick] = 1
	w.maxTick = 50 * time.Millisecond
	hangingNow := map[string]bool{}
	w.noTickWhile = func() bool { return w.httpInFlight(func(addr string) bool { return hangingNow[addr] }) }
	w.cut = cutMode(w.knob("cut", 2))
	n := w.addNode("n1", "10.0.0.1", 9851)

	// webhook receivers with failure scripts
	nh := 1 + w.knob("hooks", 2)
	longOutage := w.knob("longoutage", 6) == 0
	type hookRx struct {
		wh                 *Webhook
		fence              *fenceDef
		script             []int
		pos                int
		okBody             []hookDelivery // deliveries answered 2xx, in order
		firstOKAfterOutage time.Duration
		lastFailure        time.Duration
	}
	var hooks []*hookRx
	for i := 0; i < nh; i++ {
		i := i
		h := &hookRx{}
		sc := w.program(fmt.Sprintf("failscript%d", i), func(r *rand.Rand) []Cmd {
			// encoded as commands so that it is part of the replay file
			var p []Cmd
			healthyFirst := r.Intn(4)
			for j := 0; j < healthyFirst; j++ {
				p = append(p, Cmd{Args: []string{"200"}})
			}
			nf := r.Intn(5)
			hangs := 0
			for j := 0; j < nf; j++ {
				st := []string{"500", "503", "-1", "-2", "-3"}[r.Intn(5)]
				if st == "-2" || st == "-3" {
					hangs++
					if hangs > 2 {
						st = "503"
					}
				}
				p = append(p, Cmd{Args: []string{st}})
			}
			if longOutage && i == 0 {
				for j := 0; j < 8; j++ {
					p = append(p, Cmd{Args: []string{"-2"}})
				}
			}
			return p
		})
		for _, c := range sc {
			var st int
			fmt.Sscan(c.Args[0], &st)
			h.script = append(h.script, st)
		}
		h.wh = w.addWebhook(simAddr(fmt.Sprintf("hook%d.sim:80", i)), func(body string) int {
			st := 200
			if h.pos < len(h.script) {
				st = h.script[h.pos]
				h.pos++
			}
			// while an endpoint is (scripted to be) silent, time must be allowed to pass
			hangingNow[fmt.Sprintf("hook%d.sim:80", i)] = st == -2 || st == -3
			if st != 200 {
				w.stat(fmt.Sprintf("fault.webhook_%s", map[int]string{500: "500", 503: "503", -1: "close", -2: "hang", -3: "stalled_body"}[st]), 1)
				h.lastFailure = w.now()
			}
			return st
		})
		hooks = append(hooks, h)
	}
	inst := n.start()
	if !inst.ready() {
		w.harnessErr("node did not start")
		return
	}
	hc := newHistChecker(w, inst, newModel(), "C10")
	hc.exact = false
	w.stepHooks = append(w.stepHooks, hc.stepHook, auditHook(w, func() *Inst { return n.inst }, "C10"))

	// fences: one per webhook, plus channel fences
	nchan := 1 + w.knob("chans", 2)
	var chanFences []*fenceDef
	setup := w.program("setup", func(r *rand.Rand) []Cmd {
		var p []Cmd
		base := c05Fence(r, "x", "fleet")
		base.whereF = ""
		for i := 0; i < nh; i++ {
			f := *base
			f.name = fmt.Sprintf("h%d", i)
			if i > 0 {
				g := c05Fence(r, f.name, "fleet")
				f.detect, f.accept = g.detect, g.accept
			}
			p = append(p, Cmd{Args: append([]string{"SETHOOK", f.name, fmt.Sprintf("http://hook%d.sim:80/cb", i)}, f.args()...)})
		}
		for i := 0; i < nchan; i++ {
			f := *base
			f.name = fmt.Sprintf("hc%d", i)
			g := c05Fence(r, f.name, "fleet")
			f.detect, f.accept = g.detect, g.accept
			p = append(p, Cmd{Args: append([]string{"SETCHAN", f.name}, f.args()...)})
		}
		return p
	})
	for i, c := range setup {
		if i < nh {
			hooks[i].fence = fenceFromArgs(c.Args[1], c.Args[3:])
		} else {
			chanFences = append(chanFences, fenceFromArgs(c.Args[1], c.Args[2:]))
		}
	}
	for _, h := range hooks {
		if h.fence == nil {
			w.harnessErr("cannot parse hook fence")
			return
		}
	}
	// in half of the runs the names are first given other definitions (every kind detected,
	// another area) and then re-defined: nothing of a replaced definition may keep firing, and
	// nothing of the new one may be missing from the indexes that route events to it
	presetup := w.program("presetup", func(r *rand.Rand) []Cmd {
		var p []Cmd
		if r.Intn(2) == 0 {
			return p
		}
		for i := 0; i < nh; i++ {
			if r.Intn(2) == 0 {
				g := c05Fence(r, fmt.Sprintf("h%d", i), "fleet")
				g.detect, g.accept, g.glob, g.whereF = nil, nil, "", ""
				p = append(p, Cmd{Args: append([]string{"SETHOOK", g.name, fmt.Sprintf("http://hook%d.sim:80/cb", i)}, g.args()...)})
			}
		}
		for i := 0; i < nchan; i++ {
			if r.Intn(2) == 0 {
				g := c05Fence(r, fmt.Sprintf("hc%d", i), "fleet")
				g.detect, g.accept, g.glob, g.whereF = nil, nil, "", ""
				p = append(p, Cmd{Args: append([]string{"SETCHAN", g.name}, g.args()...)})
			}
		}
		return p
	})
	if len(presetup) > 0 {
		pa := w.addActor(n, "127.0.0.1:50000", presetup)
		pa.onReply = func(op *Op) { hc.onReply(op, pa.end.c.name) }
		if !w.Drain(30*time.Second, pa.done) {
			if !w.failed() {
				w.harnessErr("pre-setup did not finish")
			}
			return
		}
		w.stat("c10.runs_with_redefined_hooks", 1)
	}
	sa := w.addActor(n, "127.0.0.1:50001", setup)
	sa.onReply = func(op *Op) { hc.onReply(op, sa.end.c.name) }
	if !w.Drain(30*time.Second, sa.done) {
		if !w.failed() {
			w.harnessErr("setup did not finish")
		}
		return
	}
	area := hooks[0].fence.area
	startEntries := len(hc.lm.entries)

	// subscribers: each starts with one subscription and may add / drop others later
	ns := 1 + w.knob("subs", 3)
	type subRx struct {
		a    *Actor
		wins []*subWindow
	}
	var subs []*subRx
	subChoices := [][2]string{{"subscribe", "hc0"}, {"psubscribe", "hc*"}, {"subscribe", "news"}, {"psubscribe", "n*"}, {"subscribe", "hc1"}}
	for i := 0; i < ns; i++ {
		first := subChoices[w.knob(fmt.Sprintf("sub%d", i), len(subChoices))]
		firstArgs := []string{strings.ToUpper(first[0]), first[1]}
		if w.knob(fmt.Sprintf("submulti%d", i), 2) == 1 {
			// one command naming several channels (patterns): each is acknowledged on its own, and
			// from its acknowledgement on nothing published to it may be missed
			firstArgs = append(firstArgs, subMore(first)...)
		}
		a := w.addActor(n, simAddr(fmt.Sprintf("127.0.0.1:%d", 50100+i)), []Cmd{{Args: firstArgs, GoLive: true}})
		a.paused = i > 0 && w.knob(fmt.Sprintf("sublate%d", i), 2) == 1 // some subscribe while writes are already flowing
		s := &subRx{a: a}
		subs = append(subs, s)
	}
	// a live fence connection on the first hook's definition
	live := w.addActor(n, "127.0.0.1:50200", []Cmd{{Args: hooks[0].fence.args(), GoLive: true}})
	w.Drain(10*time.Second, func() bool { return len(live.ops) > 0 && live.ops[0].Return >= 0 })
	liveStart := len(hc.lm.entries)

	// writers and publishers
	nw := 2 + w.knob("writers", 2)
	per := []int{8, 16, 30}[w.knob("per", 3)]
	if w.deep() && w.knob("deep", 3) == 0 {
		per = 60
	}
	if w.knob("long", 8) == 1 {
		per = 90 // well over a hundred events per receiver: anything counted per receiver shows
	}
	var writers []*Actor
	for i := 0; i < nw; i++ {
		i := i
		prog := w.program(fmt.Sprintf("w%d", i+1), func(r *rand.Rand) []Cmd {
			in, out := area.positions()
			ids := []string{"a1", "a2", "b1"}
			var p []Cmd
			for j := 0; j < per; j++ {
				id := pick(r, ids)
				pos := in[r.Intn(len(in))]
				if r.Intn(2) == 0 {
					pos = out[r.Intn(len(out))]
				}
				lat := fnum(pos[0] + float64((j+1)*10+i)*0.00001)
				switch x := r.Intn(20); {
				case x < 12:
					p = append(p, Cmd{Args: []string{"SET", "fleet", id, "POINT", lat, fnum(pos[1])}})
				case x < 14:
					p = append(p, Cmd{Args: []string{"FSET", "fleet", id, "speed", fmt.Sprint(1 + j*10 + i)}})
				case x < 15:
					p = append(p, Cmd{Args: []string{"DEL", "fleet", id}})
				default:
					p = append(p, Cmd{Args: []string{"PUBLISH", []string{"news", "news", "nx", "hc0"}[r.Intn(4)], fmt.Sprintf("p%d-%d", i+1, j)}})
				}
			}
			return p
		})
		a := w.addActor(n, simAddr(fmt.Sprintf("127.0.0.1:%d", 50010+i)), prog)
		a.onReply = func(op *Op) { hc.onReply(op, a.end.c.name) }
		writers = append(writers, a)
	}
	// subscription changes as scheduler actions
	changes := 2 + w.knob("subchanges", 4)
	foreignUnsub := w.knob("foreignunsub", 2) == 1
	multiSub := w.knob("multisub", 2) == 1
	w.extra = append(w.extra, func() []action {
		var acts []action
		for si, s := range subs {
			s, si := s, si
			if s.a.paused && len(s.a.ops) == 0 {
				acts = append(acts, action{kind: akClient, key: fmt.Sprintf("sub%d start", si), run: func() { s.a.paused = false }})
				continue
			}
			if changes <= 0 || !s.a.live || !s.a.connected() || len(s.a.ops) == 0 || s.a.ops[0].Return < 0 {
				continue
			}
			acts = append(acts, action{kind: akClient, key: fmt.Sprintf("sub%d change", si), run: func() {
				changes--
				// drop an active subscription or add a new one
				var active []*subWindow
				for _, wn := range s.wins {
					if wn.unsubAt < 0 && wn.ackStep >= 0 {
						active = append(active, wn)
					}
				}
				if len(active) > 0 && w.ch.choose(2) == 0 {
					wn := active[w.ch.choose(len(active))]
					wn.unsubAt = w.step
					cmd := "UNSUBSCRIBE"
					if wn.kind == "psubscribe" {
						cmd = "PUNSUBSCRIBE"
					}
					s.a.sendLive(cmd, wn.name)
					return
				}
				c := subChoices[w.ch.choose(len(subChoices))]
				for _, wn := range s.wins {
					if wn.kind == c[0] && wn.name == c[1] && wn.unsubAt < 0 {
						return // already subscribed
					}
				}
				if foreignUnsub && w.ch.choose(3) == 0 {
					// leaving something this connection never joined: legal, acknowledged, and
					// nobody else's business
					cmd := "UNSUBSCRIBE"
					if c[0] == "psubscribe" {
						cmd = "PUNSUBSCRIBE"
					}
					w.stat("c10.unsubscribes_without_subscription", 1)
					s.a.sendLive(cmd, c[1])
					return
				}
				names := []string{c[1]}
				if multiSub {
					for _, nm := range subMore(c) {
						dup := false
						for _, wn := range s.wins {
							if wn.kind == c[0] && wn.name == nm && wn.unsubAt < 0 {
								dup = true
							}
						}
						if !dup {
							names = append(names, nm)
						}
					}
				}
				for _, nm := range names {
					s.wins = append(s.wins, &subWindow{kind: c[0], name: nm, sendStep: w.step, ackStep: -1, unsubAt: -1})
				}
				s.a.sendLive(append([]string{strings.ToUpper(c[0])}, names...)...)
			}})
		}
		return acts
	})
	// track subscription acknowledgements from the streams
	for _, s := range subs {
		s := s
		s.a.onStream = func(it streamItem) {}
	}
	trackAcks := func() {
		for _, s := range subs {
			if len(s.wins) == 0 && len(s.a.ops) > 0 {
				op := s.a.ops[0]
				for _, nm := range op.Cmd.Args[1:] {
					s.wins = append(s.wins, &subWindow{kind: lower(op.Cmd.Args[0]), name: nm, sendStep: op.Invoke, ackStep: -1, unsubAt: -1})
				}
			}
			for _, it := range s.a.stream {
				if it.V.T == '*' && len(it.V.A) == 3 && (it.V.A[0].S == "subscribe" || it.V.A[0].S == "psubscribe") {
					for _, wn := range s.wins {
						if wn.kind == it.V.A[0].S && wn.name == it.V.A[1].S && wn.ackStep < 0 && it.Step >= wn.sendStep {
							wn.ackStep = it.Step
							break
						}
					}
				}
			}
		}
	}
	w.stepHooks = append(w.stepHooks, trackAcks)
	writersDone := func() bool {
		for _, a := range writers {
			if !a.done() {
				return false
			}
		}
		return true
	}
	w.RunChaos(nw*per*150+500, func() bool { return writersDone() && changes <= 0 })
	if !w.failed() && !writersDone() {
		w.Drain(120*time.Second, writersDone)
	}
	if w.failed() {
		return
	}
	for _, s := range subs {
		s.a.paused = false
	}
	hc.lm.poll()
	// expected notifications per fence, in log order
	expectedFor := func(f *fenceDef, from int) ([]fenceMsg, []int, bool) {
		var out []fenceMsg
		var idx []int
		for i := from; i < len(hc.lm.entries); i++ {
			ms, amb := f.expected(&hc.lm.entries[i], hc.lm.states[i], hc.lm.states[i+1])
			if amb {
				return nil, nil, false
			}
			for range ms {
				idx = append(idx, i)
			}
			out = append(out, ms...)
		}
		return out, idx, true
	}
	// ---- webhooks: wait until the queues have drained (bounded), then compare
	wantH := make([][]fenceMsg, nh)
	idxH := make([][]int, nh)
	for i, h := range hooks {
		var ok bool
		wantH[i], idxH[i], ok = expectedFor(h.fence, startEntries)
		if !ok {
			w.stat("c10.runs_with_ambiguous_positions", 1)
			return
		}
	}
	got2xx := func(h *hookRx) []fenceMsg {
		var got []fenceMsg
		for _, d := range h.wh.recv {
			if d.Status < 200 || d.Status >= 300 {
				continue
			}
			if m, _, err := parseFenceMsg(d.Body); err == nil {
				got = append(got, m)
			}
		}
		return got
	}
	w.maxTick = 0
	w.Drain(100*time.Second, func() bool {
		for i, h := range hooks {
			if compareFenceSeq(wantH[i], got2xx(h), h.fence.nofields) != nil {
				return false
			}
		}
		return true
	})
	w.Sleep(1500 * time.Millisecond)
	if w.failed() {
		return
	}
	totalChecked := 0
	for i, h := range hooks {
		var got []fenceMsg
		var firstOK time.Duration = -1
		for _, d := range h.wh.recv {
			if d.Status < 200 || d.Status >= 300 {
				continue
			}
			if firstOK < 0 && d.T > h.lastFailure {
				firstOK = d.T
			}
			m, _, err := parseFenceMsg(d.Body)
			if err != nil {
				w.violate("C10/format", "webhook body: %v", err)
				return
			}
			got = append(got, m)
		}
		want := wantH[i]
		if longOutage && i == 0 {
			// only messages older than the 30 s retention when the endpoint recovered may be missing
			for k := range want {
				qt := hc.lm.entries[idxH[i][k]].t
				if h.lastFailure > 0 && qt+24*time.Second < h.lastFailure {
					want[k].optional = true
					w.stat("probe.message_beyond_retention", 1)
				}
			}
		}
		if err := compareFenceSeq(want, got, h.fence.nofields); err != nil {
			w.violate("C10/webhook", "hook %s [%s], endpoint answers %v then 200: the messages answered 2xx are not exactly the expected ones, once each, in write order: %v (expected %d, answered-2xx %d, requests seen %d)",
				h.fence.name, strings.Join(h.fence.args(), " "), h.script, err, len(want), len(got), len(h.wh.recv))
			return
		}
		totalChecked += len(want)
	}
	// ---- live fence: exactly the expected sequence
	if wantL, _, ok := expectedFor(hooks[0].fence, liveStart); ok {
		var got []fenceMsg
		for i, it := range live.stream {
			if i == 0 {
				continue
			}
			m, _, err := parseFenceMsg(it.V.S)
			if err != nil {
				w.violate("C10/format", "live message: %v", err)
				return
			}
			got = append(got, m)
		}
		if err := compareFenceSeq(wantL, got, hooks[0].fence.nofields); err != nil {
			w.violate("C10/live", "live fence [%s]: %v (expected %d, received %d)", strings.Join(hooks[0].fence.args(), " "), err, len(wantL), len(got))
			return
		}
		totalChecked += len(wantL)
	}
	// ---- pub/sub: build the event list
	var events []pubEvent
	optCount := map[string]int{}
	srcSeq := map[string]int{}
	add := func(ch, payload string, inv, ret int, src string) {
		srcSeq[src]++
		events = append(events, pubEvent{channel: ch, payload: payload, invoke: inv, ret: ret, src: src, seq: srcSeq[src]})
	}
	for _, a := range writers {
		for _, op := range a.ops {
			if op.name() == "publish" && op.Return >= 0 && !op.Reply.isErr() {
				add(op.Cmd.Args[1], op.Cmd.Args[2], op.Invoke, op.Return, fmt.Sprintf("a%02d", a.id))
			}
		}
	}
	for _, f := range chanFences {
		ms, idx, ok := expectedFor(f, startEntries)
		if !ok {
			continue
		}
		for k, m := range ms {
			if m.optional {
				// may or may not be delivered: only relevant for the duplicate count
				optCount[f.name+"|"+fmt.Sprintf("%s @%d", m.String(), int64(hc.lm.entries[idx[k]].t))]++
				continue
			}
			e := &hc.lm.entries[idx[k]]
			inv, ret := e.step, e.step
			if e.op != nil {
				inv, ret = e.op.Invoke, e.op.Return
			}
			add(f.name, fmt.Sprintf("%s @%d", m.String(), int64(e.t)), inv, ret, "fence:"+f.name)
		}
	}
	w.Sleep(500 * time.Millisecond)
	trackAcks()
	matchCh := func(wn *subWindow, ch string) bool {
		if wn.kind == "subscribe" {
			return wn.name == ch
		}
		return globMatch(wn.name, ch)
	}
	for si, s := range subs {
		// what this subscriber received: (kind, subscription name, channel, payload)
		type rcv struct{ kind, sub, ch, payload string }
		var got []rcv
		seen := map[rcv]int{}
		for _, it := range s.a.stream {
			v := it.V
			if v.T != '*' {
				continue
			}
			switch {
			case len(v.A) == 3 && v.A[0].S == "message":
				got = append(got, rcv{"subscribe", v.A[1].S, v.A[1].S, payloadKey(v.A[2].S)})
			case len(v.A) == 4 && v.A[0].S == "pmessage":
				got = append(got, rcv{"psubscribe", v.A[1].S, v.A[2].S, payloadKey(v.A[3].S)})
			}
		}
		for _, g := range got {
			seen[g]++
		}
		for _, wn := range s.wins {
			nActive := 0
			for _, x := range s.wins {
				if x.kind == wn.kind && x.name == wn.name {
					nActive++
				}
			}
			for _, ev := range events {
				if !matchCh(wn, ev.channel) {
					continue
				}
				key := rcv{wn.kind, wn.name, ev.channel, ev.payload}
				must := wn.ackStep >= 0 && ev.invoke > wn.ackStep && (wn.unsubAt < 0 || ev.ret < wn.unsubAt)
				mustNot := ev.ret < wn.sendStep && nActive == 1
				if must && seen[key] == 0 {
					w.violate("C10/lost", "subscriber %d (%s %s, acknowledged at step %d): the message %q on %q, caused by a command sent at step %d, never arrived",
						si, wn.kind, wn.name, wn.ackStep, clipStr(ev.payload, 80), ev.channel, ev.invoke)
					return
				}
				if mustNot && seen[key] > 0 {
					// A subscriber that receives an event whose write was answered before it even
					// subscribed: fence events reach channels through the hook's sender, after the
					// write's reply, so this happens (found by the thorough tier once writes could
					// block on the send window). The property promises every event AFTER an
					// acknowledged subscription, exactly once and in order; it does not forbid an
					// earlier one. Counted, not reported (an earlier version reported it: a false
					// alarm of the check).
					w.stat("probe.event_older_than_the_subscription_delivered", 1)
				}
				mult := optCount[ev.channel+"|"+ev.payload]
				for _, e2 := range events {
					if e2.channel == ev.channel && e2.payload == ev.payload {
						mult++
					}
				}
				if seen[key] > nActive*mult {
					w.violate("C10/duplicate", "subscriber %d received %q on %q %d times through %s %s", si, clipStr(ev.payload, 80), ev.channel, seen[key], wn.kind, wn.name)
					return
				}
				totalChecked++
			}
		}
		// per publisher FIFO inside each subscription: every received message must map to an
		// event of its source that lies after the previously mapped one
		last := map[string]int{}
		for _, g := range got {
			if optCount[g.ch+"|"+g.payload] > 0 {
				continue // an identical optional message exists: this one cannot be placed uniquely
			}
			matched, behind := false, false
			var src string
			for _, ev := range events {
				if ev.channel != g.ch || ev.payload != g.payload {
					continue
				}
				k := g.kind + "|" + g.sub + "|" + ev.src
				src = ev.src
				if ev.seq > last[k] {
					last[k] = ev.seq
					matched = true
					break
				}
				behind = true
			}
			if !matched && behind && optCount[g.ch+"|"+g.payload] == 0 {
				var recent []string
				for _, x := range got {
					if x.kind == g.kind && x.sub == g.sub {
						recent = append(recent, clipStr(x.payload, 50))
					}
				}
				var evs []string
				for _, ev := range events {
					if ev.src == src {
						evs = append(evs, fmt.Sprintf("%d:%s", ev.seq, clipStr(ev.payload, 50)))
					}
				}
				w.violate("C10/order", "subscriber %d received messages of %s out of order on %s %s (%q after a later one); received on this subscription: %v; events of the source in write order: %v", si, src, g.kind, g.sub, clipStr(g.payload, 60), recent, evs)
				return
			}
		}
	}
	hc.finish(nil)
	w.stat("c10.expectations_checked", totalChecked)
	w.nontriv = totalChecked >= 6
	w.sample = map[string]interface{}{"seed": w.seed, "hooks": nh, "failure_scripts": func() [][]int {
		var s [][]int
		for _, h := range hooks {
			s = append(s, h.script)
		}
		return s
	}(), "subscribers": ns, "writers": nw, "pubsub_events": len(events), "long_outage": longOutage}
}

// payloadKey reduces a delivered fence notification to the same key that the
// expectation uses; plain PUBLISH payloads are kept as they are.
func payloadKey(s string) string {
	if strings.HasPrefix(s, "{") {
		if m, _, err := parseFenceMsg(s); err == nil && m.command != "" {
			var t struct {
				Time time.Time `json:"time"`
			}
			json.Unmarshal([]byte(s), &t)
			return fmt.Sprintf("%s @%d", m.String(), int64(t.Time.Sub(bubbleEpoch)))
		}
	}
	return s
}

// bubbleEpoch is the instant every synctest bubble starts at.
var bubbleEpoch = time.Date(2000, 1, 1, 0, 0, 0, 0, time.UTC)
