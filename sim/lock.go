package server

// Scheduler-owned readers-writer lock and goroutine identity.

import (
	"bytes"
	"fmt"
	"runtime"
	"strconv"
	"strings"
)

// ---------------------------------------------------------------------------
// goroutine identity

type ginfo struct {
	inst *Inst    // server instance the goroutine belongs to (nil = harness)
	conn *simConn // connection it serves, if known
}

func curGoid() uint64 {
	var buf [40]byte
	n := runtime.Stack(buf[:], false)
	// "goroutine 123 ["
	b := buf[:n]
	b = b[len("goroutine "):]
	i := bytes.IndexByte(b, ' ')
	id, _ := strconv.ParseUint(string(b[:i]), 10, 64)
	return id
}

// parentGoid parses "created by ... in goroutine N" from the current stack.
func parentGoid() uint64 {
	sz := 8192
	for {
		buf := make([]byte, sz)
		n := runtime.Stack(buf, false)
		if n == sz && sz < 1<<20 {
			sz *= 4
			continue
		}
		b := buf[:n]
		i := bytes.LastIndex(b, []byte(" in goroutine "))
		if i < 0 {
			return 0
		}
		b = b[i+len(" in goroutine "):]
		j := 0
		for j < len(b) && b[j] >= '0' && b[j] <= '9' {
			j++
		}
		id, _ := strconv.ParseUint(string(b[:j]), 10, 64)
		return id
	}
}

// allParents maps every live goroutine to its creator (expensive; rare paths).
func allParents() map[uint64]uint64 {
	sz := 1 << 20
	var b []byte
	for {
		buf := make([]byte, sz)
		n := runtime.Stack(buf, true)
		if n == sz {
			sz *= 2
			continue
		}
		b = buf[:n]
		break
	}
	m := map[uint64]uint64{}
	for _, blk := range bytes.Split(b, []byte("\n\n")) {
		if !bytes.HasPrefix(blk, []byte("goroutine ")) {
			continue
		}
		r := blk[len("goroutine "):]
		i := bytes.IndexByte(r, ' ')
		if i < 0 {
			continue
		}
		id, _ := strconv.ParseUint(string(r[:i]), 10, 64)
		k := bytes.LastIndex(blk, []byte(" in goroutine "))
		if k < 0 {
			continue
		}
		r = blk[k+len(" in goroutine "):]
		j := 0
		for j < len(r) && r[j] >= '0' && r[j] <= '9' {
			j++
		}
		p, _ := strconv.ParseUint(string(r[:j]), 10, 64)
		m[id] = p
	}
	return m
}

// whoLocked resolves the identity of the calling goroutine; s.mu must be held.
func (s *Sim) whoLocked() *ginfo {
	id := curGoid()
	if g := s.gmap[id]; g != nil {
		return g
	}
	p := parentGoid()
	if g := s.gmap[p]; g != nil {
		ng := &ginfo{inst: g.inst, conn: g.conn}
		s.gmap[id] = ng
		return ng
	}
	// walk the chain of live goroutines (expensive; should be rare)
	s.stat("harness.allparents_walks", 1)
	parents := allParents()
	cur := p
	for depth := 0; depth < 32 && cur != 0; depth++ {
		if g := s.gmap[cur]; g != nil {
			ng := &ginfo{inst: g.inst, conn: g.conn}
			s.gmap[id] = ng
			return ng
		}
		cur = parents[cur]
	}
	ng := &ginfo{}
	s.gmap[id] = ng
	return ng
}

func (s *Sim) registerGoroutine(inst *Inst, conn *simConn) {
	id := curGoid()
	s.mu.Lock()
	g := s.gmap[id]
	if g == nil {
		g = &ginfo{}
		s.gmap[id] = g
	}
	if inst != nil {
		g.inst = inst
	}
	if conn != nil {
		g.conn = conn
	}
	s.mu.Unlock()
}

// roleOfCaller names the server function that asked for the lock.
var roleFuncs = []struct{ substr, role string }{
	{"(*Server).backgroundExpiring", "expire"},
	{"(*Server).backgroundSyncAOF", "syncaof"},
	{"(*Server).aofshrink", "shrink"},
	{"(*Server).followHandleCommand", "followcmd"},
	{"(*Server).followCheckSome", "followchk"},
	{"(*Server).followStep", "followstep"},
	{"(*Server).liveAOF", "liveaof"},
	{"(*Server).goLive", "golive"},
	{"(*Server).startPublishQueue", "pubq"},
	{"(*Server).cmdFollow", "cmdfollow"},
	{"luaTile38", "luacall"},
	{"(*Server).handleInputCommand", "cmd"},
	{"(*Server).netServe", "prewrite"},
}

func roleOfCaller() string {
	var pcs [48]uintptr
	n := runtime.Callers(3, pcs[:])
	frames := runtime.CallersFrames(pcs[:n])
	for {
		f, more := frames.Next()
		for _, rf := range roleFuncs {
			if strings.Contains(f.Function, rf.substr) {
				return rf.role
			}
		}
		if !more {
			break
		}
	}
	return "other"
}

// ---------------------------------------------------------------------------

type lockMode int

const (
	modeR lockMode = iota
	modeW
)

type lockReq struct {
	inst    *Inst
	role    string
	conn    *simConn
	mode    lockMode
	arrival int // sim step at which it arrived
	seq     int // arrival sequence inside the instance (diagnostics only)
	ch      chan struct{}
	granted bool
	// after unlock / at a point
	parked  bool
	parkKey string
}

func (r *lockReq) key() string {
	cid := "-"
	if r.conn != nil {
		cid = r.conn.name
	}
	m := "R"
	if r.mode == modeW {
		m = "W"
	}
	return fmt.Sprintf("%s/%s/%s/%s/%06d", r.inst.node.name, r.role, cid, m, r.arrival)
}

// simLock implements rwlocker for one server instance.
type simLock struct {
	sim  *Sim
	inst *Inst

	// all below guarded by sim.mu
	pending  []*lockReq
	parked   []*lockReq // goroutines parked after unlock or at a named point
	writer   *lockReq
	readers  []*lockReq
	held     map[uint64]*lockReq // goid -> request currently held by that goroutine
	seq      int
	holdRole string
	holdConn string // requests of the connection with this name prefix are held back too
}

func (l *simLock) acquire(mode lockMode) {
	s := l.sim
	s.mu.Lock()
	g := s.whoLocked()
	l.seq++
	r := &lockReq{inst: l.inst, role: roleOfCaller(), conn: g.conn, mode: mode,
		arrival: s.step, seq: l.seq, ch: make(chan struct{})}
	l.pending = append(l.pending, r)
	gid := curGoid()
	s.mu.Unlock()
	<-r.ch
	s.mu.Lock()
	l.held[gid] = r
	s.mu.Unlock()
}

func (l *simLock) release(mode lockMode) {
	s := l.sim
	gid := curGoid()
	s.mu.Lock()
	r := l.held[gid]
	if r == nil {
		s.mu.Unlock()
		panic("verif: unlock of a lock not held by this goroutine")
	}
	delete(l.held, gid)
	if r.mode != mode {
		s.mu.Unlock()
		panic("verif: unlock mode mismatch")
	}
	if mode == modeW {
		l.writer = nil
	} else {
		for i, x := range l.readers {
			if x == r {
				l.readers = append(l.readers[:i], l.readers[i+1:]...)
				break
			}
		}
	}
	l.inst.onUnlock(r)
	// yield after unlock: park until the scheduler resumes this goroutine
	r.parked = true
	r.parkKey = "unlock"
	r.ch = make(chan struct{})
	l.parked = append(l.parked, r)
	ch := r.ch
	s.mu.Unlock()
	<-ch
}

func (l *simLock) Lock()            { l.acquire(modeW) }
func (l *simLock) LockLowPriority() { l.acquire(modeW) }
func (l *simLock) RLock()           { l.acquire(modeR) }
func (l *simLock) Unlock()          { l.release(modeW) }
func (l *simLock) RUnlock()         { l.release(modeR) }

// point parks the calling goroutine at a named point until resumed.
func (l *simLock) point(name string) {
	s := l.sim
	s.mu.Lock()
	g := s.whoLocked()
	r := &lockReq{inst: l.inst, role: "point:" + name, conn: g.conn, arrival: s.step,
		ch: make(chan struct{}), parked: true, parkKey: name}
	l.parked = append(l.parked, r)
	l.inst.atPoint = name
	ch := r.ch
	s.mu.Unlock()
	<-ch
	s.mu.Lock()
	l.inst.atPoint = ""
	s.mu.Unlock()
}

// actionsLocked lists grant/resume actions; sim.mu held.
func (l *simLock) actionsLocked() []action {
	var acts []action
	// A webhook sender sleeps 0.5 s between retries while holding its hook's
	// mutex; a write that signals that hook would block on a plain mutex for
	// that long, which a synctest bubble cannot wait out. Exclusive grants
	// are therefore held back until no hook mutex is held (the write happens
	// at the end of the stall instead of stalling inside it).
	gate := l.inst.hookMutexHeld()
	for _, r := range l.pending {
		r := r
		ok := l.writer == nil && (r.mode == modeR || len(l.readers) == 0)
		if !ok || (gate && r.mode == modeW) {
			continue
		}
		if l.holdRole != "" && r.role == l.holdRole {
			continue // a property holds these requests back for a while (e.g. to pile up scripts)
		}
		if l.holdConn != "" && r.conn != nil && strings.HasPrefix(r.conn.name, l.holdConn) {
			continue
		}
		acts = append(acts, action{kind: akGrant, key: r.key(), run: func() { l.grant(r) }})
	}
	for _, r := range l.parked {
		r := r
		if r.parkKey == panicPoint && !l.inst.dead {
			continue // a process that died stays dead; the property crashes the node
		}
		acts = append(acts, action{kind: akResume, key: r.key() + "@" + r.parkKey, run: func() { l.resume(r) }})
	}
	return acts
}

func (l *simLock) grant(r *lockReq) {
	s := l.sim
	s.mu.Lock()
	for i, x := range l.pending {
		if x == r {
			l.pending = append(l.pending[:i], l.pending[i+1:]...)
			break
		}
	}
	r.granted = true
	if r.mode == modeW {
		l.writer = r
	} else {
		l.readers = append(l.readers, r)
	}
	l.inst.onGrant(r)
	s.mu.Unlock()
	close(r.ch)
}

func (l *simLock) resume(r *lockReq) {
	s := l.sim
	s.mu.Lock()
	for i, x := range l.parked {
		if x == r {
			l.parked = append(l.parked[:i], l.parked[i+1:]...)
			break
		}
	}
	r.parked = false
	s.mu.Unlock()
	close(r.ch)
}

func (l *simLock) idle() bool {
	return l.writer == nil && len(l.readers) == 0
}
