package server

// C01 - sequential conformance of the keyspace commands (fault-free baseline).

import (
	"math/rand"
	"strings"
	"time"
)

func init() { registerProp("C01", runC01) }

func runC01(w *World) {
	w.drawWeights()
	w.weights[akFault] = 0
	w.cut = cutMode(w.knob("cut", 2))
	n := w.addNode("n1", "10.0.0.1", 9851)
	inst := n.start()
	if !inst.ready() {
		w.harnessErr("node did not start")
		return
	}
	hc := newHistChecker(w, inst, newModel(), "C01")
	hc.exact = true
	w.stepHooks = append(w.stepHooks, hc.stepHook, lockDiscipline(w, inst, "C01"), auditHook(w, func() *Inst { return n.inst }, "C01"))

	size := []int{20, 40, 80, 200}[w.knob("size", 4)]
	if w.tier == "quick" && size > 80 {
		size = 80
	}
	if w.deep() && w.knob("deep", 4) == 0 {
		size = 500
	}
	nkeys := 1 + w.knob("nkeys", 3)
	nids := 2 + w.knob("nids", 3)
	style := w.knob("style", 4)
	prog := w.program("p1", func(r *rand.Rand) []Cmd {
		g := defaultGenCfg(1)
		g.keys = g.keys[:nkeys]
		g.freeIDs = []string{"a", "b", "c", "d"}[:nids]
		g.wBad = 6
		switch style {
		case 1: // expiry heavy
			g.wExpire = 10
			g.exVals = []string{"0.1", "0.2", "0.5", "1", "1.5"}
		case 2: // multi-object heavy
			g.wMulti = 10
		case 3: // json heavy, no deadlines
			g.wJSON = 12
			g.exVals = nil
		}
		return g.program(r, size)
	})
	a := w.addActor(n, "127.0.0.1:50001", prog)
	a.onReply = func(op *Op) { hc.onReply(op, a.end.c.name) }
	w.RunChaos(size*40, a.done)
	if !a.done() && !w.failed() {
		w.Drain(20*time.Second, a.done)
	}
	w.Sleep(500 * time.Millisecond)
	if !w.failed() && !a.done() {
		w.harnessErr("client did not finish its program (%d/%d)", a.next, len(a.prog))
	}
	hc.finish(nil)
	// client-visible dump through the API must agree with the model too
	if !w.failed() {
		apiDumpCheck(w, n, hc.lm, "C01")
	}
	w.nontriv = hc.nChecked >= 10
	w.stat("c01.ops_checked", hc.nChecked)
	if len(a.ops) > 0 {
		var sm []string
		for i, op := range a.ops {
			if i >= 12 {
				break
			}
			sm = append(sm, clipStr(op.Cmd.String(), 100)+" -> "+clipStr(op.Reply.String(), 80))
		}
		w.sample = map[string]interface{}{"seed": w.seed, "program_len": len(prog), "first_ops": sm,
			"log_entries": len(hc.lm.entries), "expired_by_sweeper": w.stats["probe.expiry_logged"]}
	}
	_ = strings.Join
}
