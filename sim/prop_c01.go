package server

// C01 - sequential conformance of the keyspace commands (fault-free baseline).

import (
	"math/rand"
	"strconv"
	"strings"
	"time"
)

func init() { registerProp("C01", runC01) }

func runC01(w *World) {
	w.drawWeights()
	w.weights[akFault] = 0
	w.cut = cutMode(w.knob("cut", 2))
	n := w.addNode("n1", "10.0.0.1", 9851)
	inst := n.start()
	if !inst.ready() {
		w.harnessErr("node did not start")
		return
	}
	hc := newHistChecker(w, inst, newModel(), "C01")
	hc.exact = true
	w.stepHooks = append(w.stepHooks, hc.stepHook, lockDiscipline(w, inst, "C01"), auditHook(w, func() *Inst { return n.inst }, "C01"))

	size := []int{20, 40, 80, 200}[w.knob("size", 4)]
	if w.tier == "quick" && size > 80 {
		size = 80
	}
	if w.deep() && w.knob("deep", 4) == 0 {
		size = 500
	}
	nkeys := 1 + w.knob("nkeys", 3)
	nids := 2 + w.knob("nids", 3)
	style := w.knob("style", 4)
	// one run in four is not drawn but counted: the (seed/4 mod 21^3)-th sequence of three
	// commands over a 21-command alphabet on one small keyspace, followed by every kind of read;
	// the thorough tier goes through all 9261 sequences many times over, the quick tier through
	// a fixed thousand of them
	enum := w.knob("enum", 4) == 1
	prog := w.program("p1", func(r *rand.Rand) []Cmd {
		if enum {
			return c01Enumerated(int((w.seed / 4) % 9261))
		}
		g := defaultGenCfg(1)
		g.keys = g.keys[:nkeys]
		g.freeIDs = []string{"a", "b", "c", "d"}[:nids]
		g.wBad = 6
		switch style {
		case 1: // expiry heavy
			g.wExpire = 10
			g.exVals = []string{"0.1", "0.2", "0.5", "1", "1.5"}
		case 2: // multi-object heavy
			g.wMulti = 10
		case 3: // json heavy, no deadlines
			g.wJSON = 12
			g.exVals = nil
		}
		return g.program(r, size)
	})
	a := w.addActor(n, "127.0.0.1:50001", prog)
	a.onReply = func(op *Op) { hc.onReply(op, a.end.c.name) }
	if enum {
		w.stat("c01.enumerated_sequences", 1)
		size = len(prog)
	}
	w.RunChaos(size*40, a.done)
	if !a.done() && !w.failed() {
		w.Drain(20*time.Second, a.done)
	}
	w.Sleep(500 * time.Millisecond)
	if !w.failed() && !a.done() {
		w.harnessErr("client did not finish its program (%d/%d)", a.next, len(a.prog))
	}
	hc.finish(nil)
	// client-visible dump through the API must agree with the model too
	if !w.failed() {
		apiDumpCheck(w, n, hc.lm, "C01")
	}
	w.nontriv = hc.nChecked >= 10
	w.stat("c01.ops_checked", hc.nChecked)
	if len(a.ops) > 0 {
		var sm []string
		for i, op := range a.ops {
			if i >= 12 {
				break
			}
			sm = append(sm, clipStr(op.Cmd.String(), 100)+" -> "+clipStr(op.Reply.String(), 80))
		}
		w.sample = map[string]interface{}{"seed": w.seed, "program_len": len(prog), "first_ops": sm,
			"log_entries": len(hc.lm.entries), "expired_by_sweeper": w.stats["probe.expiry_logged"]}
	}
	_ = strings.Join
}

var c01Alphabet = [][]string{
	{"SET", "k", "a", "POINT", "1", "1"},
	{"SET", "k", "a", "STRING", "s1"},
	{"SET", "k", "b", "FIELD", "f", "1", "POINT", "2", "2"},
	{"SET", "k", "a", "EX", "1000", "POINT", "3", "3"},
	{"SET", "k", "a", "XX", "POINT", "4", "4"},
	{"SET", "k", "a", "NX", "FIELD", "f", "7", "POINT", "5", "5"},
	{"SET", "k", "e", "OBJECT", `{"type":"FeatureCollection","features":[]}`},
	{"SET", "k2", "a", "BOUNDS", "1", "1", "2", "2"},
	{"FSET", "k", "a", "f", "2"},
	{"FSET", "k", "a", "f", "0", "g", "3", "g", "0"},
	{"DEL", "k", "a"},
	{"PDEL", "k", "*"},
	{"DROP", "k"},
	{"RENAME", "k", "k2"},
	{"RENAME", "k", "k"},
	{"RENAMENX", "k2", "k"},
	{"EXPIRE", "k", "a", "1000"},
	{"PERSIST", "k", "a"},
	{"JSET", "k", "j", "b", "2"},
	{"SET", "k", "j", "STRING", `{"a":1}`},
	{"FLUSHDB"},
}

// c01Enumerated returns the idx-th sequence of three alphabet commands plus a fixed tail of reads.
func c01Enumerated(idx int) []Cmd {
	var p []Cmd
	n := len(c01Alphabet)
	for i := 0; i < 3; i++ {
		p = append(p, Cmd{Args: append([]string(nil), c01Alphabet[idx%n]...)})
		idx /= n
	}
	for _, key := range []string{"k", "k2"} {
		p = append(p, Cmd{Args: []string{"TYPE", key}}, Cmd{Args: []string{"SCAN", key, "LIMIT", "100000"}})
		for c := 0; c <= 3; c++ {
			p = append(p, Cmd{Args: []string{"SCAN", key, "CURSOR", strconv.Itoa(c), "LIMIT", "1", "IDS"}})
		}
		p = append(p, Cmd{Args: []string{"SCAN", key, "CURSOR", "2", "LIMIT", "2", "IDS"}}, Cmd{Args: []string{"SCAN", key, "CURSOR", "1", "LIMIT", "2", "DESC", "IDS"}})
		for _, id := range []string{"a", "b", "e"} {
			p = append(p, Cmd{Args: []string{"GET", key, id, "WITHFIELDS"}}, Cmd{Args: []string{"TTL", key, id}},
				Cmd{Args: []string{"FGET", key, id, "f"}}, Cmd{Args: []string{"EXISTS", key, id}}, Cmd{Args: []string{"FEXISTS", key, id, "g"}})
		}
		p = append(p, Cmd{Args: []string{"JGET", key, "j", "b"}}, Cmd{Args: []string{"GET", key, "j"}})
	}
	p = append(p, Cmd{Args: []string{"KEYS", "*"}})
	return p
}
