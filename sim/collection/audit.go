package collection

// VerifAudit (grafted in by the simulation build only) cross-checks every
// index and counter of a collection against the objects reachable by id.

import (
	"fmt"
	"math"

	"github.com/tidwall/tile38/internal/field"
	"github.com/tidwall/tile38/internal/object"
)

func (c *Collection) VerifAudit() error {
	var nspatial, nstrings, points, weight, nexp, nindexed int
	var objs []*object.Object
	c.objs.Scan(func(id string, o *object.Object) bool {
		objs = append(objs, o)
		return true
	})
	minX, minY := math.Inf(1), math.Inf(1)
	maxX, maxY := math.Inf(-1), math.Inf(-1)
	for _, o := range objs {
		if o.IsSpatial() {
			nspatial++
			if !o.Geo().Empty() {
				nindexed++
				r := o.Rect()
				minX, minY = math.Min(minX, r.Min.X), math.Min(minY, r.Min.Y)
				maxX, maxY = math.Max(maxX, r.Max.X), math.Max(maxY, r.Max.Y)
				found := false
				mn, mx := rtreeRect(r)
				c.spatial.Search(mn, mx, func(_, _ [2]float32, data *object.Object) bool {
					if data == o {
						found = true
						return false
					}
					return true
				})
				if !found {
					return fmt.Errorf("object %q is not reachable through the spatial index", o.ID())
				}
			}
			if _, ok := c.values.Get(o); ok {
				return fmt.Errorf("geometry %q is in the value index", o.ID())
			}
		} else {
			nstrings++
			if v, ok := c.values.Get(o); !ok || v != o {
				return fmt.Errorf("string object %q is not reachable through the value index", o.ID())
			}
		}
		if o.Expires() != 0 {
			nexp++
			if v, ok := c.expires.Get(o); !ok || v != o {
				return fmt.Errorf("object %q with a deadline is not in the expiry index", o.ID())
			}
		}
		points += o.Geo().NumPoints()
		// the size of an object is recomputed from what can be retrieved of it (id, value,
		// fields read one by one into a fresh list), not taken from its stored encoding: two
		// objects with the same retrievable content weigh the same
		var fl field.List
		o.Fields().Scan(func(f field.Field) bool {
			fl = fl.Set(f)
			return true
		})
		cw := object.New(o.ID(), o.Geo(), o.Expires(), fl).Weight()
		if cw != o.Weight() {
			return fmt.Errorf("object %q weighs %d bytes as stored, %d when rebuilt from its retrievable id, value and fields", o.ID(), o.Weight(), cw)
		}
		weight += cw
	}
	if c.spatial.Len() != nindexed {
		return fmt.Errorf("spatial index holds %d entries, %d indexable geometries are retrievable", c.spatial.Len(), nindexed)
	}
	if c.values.Len() != nstrings {
		return fmt.Errorf("value index holds %d entries, %d strings are retrievable", c.values.Len(), nstrings)
	}
	if c.expires.Len() != nexp {
		return fmt.Errorf("expiry index holds %d entries, %d objects have a deadline", c.expires.Len(), nexp)
	}
	if c.objects != nspatial || c.nobjects != nstrings {
		return fmt.Errorf("counters objects=%d strings=%d, retrievable %d / %d", c.objects, c.nobjects, nspatial, nstrings)
	}
	if c.points != points {
		return fmt.Errorf("point counter %d, recomputed %d", c.points, points)
	}
	if c.weight != weight {
		return fmt.Errorf("weight counter %d, recomputed %d", c.weight, weight)
	}
	if nindexed > 0 {
		bx0, by0, bx1, by1 := c.Bounds()
		if bx0 != minX || by0 != minY || bx1 != maxX || by1 != maxY {
			return fmt.Errorf("bounds [%v %v %v %v], recomputed [%v %v %v %v]", bx0, by0, bx1, by1, minX, minY, maxX, maxY)
		}
	}
	// every index entry must be a retrievable object
	bad := ""
	c.expires.Scan(func(o *object.Object) bool {
		if cur, _ := c.objs.Get(o.ID()); cur != o {
			bad = fmt.Sprintf("expiry index holds a stale entry for %q", o.ID())
			return false
		}
		return true
	})
	if bad == "" {
		c.values.Scan(func(o *object.Object) bool {
			if cur, _ := c.objs.Get(o.ID()); cur != o {
				bad = fmt.Sprintf("value index holds a stale entry for %q", o.ID())
				return false
			}
			return true
		})
	}
	if bad == "" {
		c.spatial.Scan(func(_, _ [2]float32, o *object.Object) bool {
			if cur, _ := c.objs.Get(o.ID()); cur != o {
				bad = fmt.Sprintf("spatial index holds a stale entry for %q", o.ID())
				return false
			}
			return true
		})
	}
	if bad != "" {
		return fmt.Errorf("%s", bad)
	}
	return nil
}
