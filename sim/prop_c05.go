package server

// C05 - fence notifications follow the documented enter/exit/inside/outside/cross rules.

import (
	"encoding/json"
	"fmt"
	"math"
	"math/rand"
	"os"
	"strings"
	"time"
)

func init() { registerProp("C05", runC05) }

var detectNames = []string{"inside", "outside", "enter", "exit", "cross"}

// c05Area draws a fence area; positions() gives a menu of margin-safe points.
func c05Area(r *rand.Rand) fenceArea {
	if r.Intn(2) == 0 {
		lat := float64(r.Intn(60) - 30)
		lon := float64(r.Intn(200) - 100)
		return fenceArea{circle: true, lat: lat, lon: lon, meters: float64(20000 + r.Intn(5)*40000)}
	}
	lat := float64(r.Intn(50) - 30)
	lon := float64(r.Intn(180) - 100)
	return fenceArea{minLat: lat, minLon: lon, maxLat: lat + 4 + float64(r.Intn(6)), maxLon: lon + 4 + float64(r.Intn(6))}
}

// positions returns clearly-inside and clearly-outside points around an area,
// including pairs on opposite sides (whose straight path crosses it).
func (a *fenceArea) positions() (inside, outside [][2]float64) {
	var cLat, cLon, dLat, dLon float64
	if a.circle {
		cLat, cLon = a.lat, a.lon
		dLat = a.meters / 111000.0
		dLon = dLat / 0.8
	} else {
		cLat, cLon = (a.minLat+a.maxLat)/2, (a.minLon+a.maxLon)/2
		dLat, dLon = (a.maxLat-a.minLat)/2, (a.maxLon-a.minLon)/2
	}
	r4 := func(x float64) float64 { return float64(int64(x*10000)) / 10000 }
	for _, f := range [][2]float64{{0, 0}, {0.3, 0.2}, {-0.25, 0.35}, {0.1, -0.4}} {
		inside = append(inside, [2]float64{r4(cLat + f[0]*dLat), r4(cLon + f[1]*dLon)})
	}
	for _, f := range [][2]float64{{0, -3}, {0, 3}, {3, 0}, {-3, 0}, {0, -6}, {2.5, 2.5}, {-2.5, -2.5}, {0.1, -2}} {
		outside = append(outside, [2]float64{r4(cLat + f[0]*dLat), r4(cLon + f[1]*dLon)})
	}
	return
}

func c05Fence(r *rand.Rand, name, key string) *fenceDef {
	f := &fenceDef{name: name, key: key, area: c05Area(r)}
	if f.area.circle {
		f.cmd = "nearby"
	} else {
		f.cmd = []string{"within", "intersects"}[r.Intn(2)]
	}
	if r.Intn(3) != 0 {
		mask := 1 + r.Intn(31)
		f.detect = map[string]bool{}
		for i, d := range detectNames {
			if mask&(1<<uint(i)) != 0 {
				f.detect[d] = true
			}
		}
	}
	switch r.Intn(6) {
	case 0:
		f.accept = map[string]bool{"set": true}
	case 1:
		f.accept = map[string]bool{"set": true, "del": true}
	case 2:
		f.accept = map[string]bool{"fset": true, "drop": true, "del": true}
	}
	if r.Intn(5) == 0 {
		f.glob = "a*"
	}
	if r.Intn(5) == 0 {
		f.whereF, f.whereLo, f.whereHi = "speed", 10, 50
	}
	return f
}

func runC05(w *World) {
	w.drawWeights()
	w.drawNet(w.knob)
	w.weights[akFault] = 0
	// the webhook client gives up after 5 s: keep virtual time slow relative to
	// deliveries so that a healthy receiver is never retried (retries are C10's subject)
	w.weights[akTick] = 1
	w.maxTick = 50 * time.Millisecond
	w.noTickWhile = func() bool { return w.httpInFlight(nil) }
	w.cut = cutMode(w.knob("cut", 2))
	n := w.addNode("n1", "10.0.0.1", 9851)
	// in a quarter of the runs the receiver of the fence under test refuses one request (the
	// k-th) with a 500: the notification is to be sent again, and what the receiver ends up
	// having accepted is still exactly the documented sequence
	var hookMode func(body string) int
	if w.knob("hookfault", 4) == 1 {
		failAt, seen := 1+w.knob("hookfailat", 8), 0
		hookMode = func(string) int {
			seen++
			if seen == failAt {
				w.stat("fault.webhook_refused_once", 1)
				return 500
			}
			return 200
		}
	}
	main := w.addWebhook("hook0.sim:80", hookMode)
	accepted := func() int {
		k := 0
		for _, d := range main.recv {
			if d.Status == 200 {
				k++
			}
		}
		return k
	}
	nOther := w.knob("others", 13)
	for i := 1; i <= nOther; i++ {
		w.addWebhook(simAddr(fmt.Sprintf("hook%d.sim:80", i)), nil)
	}
	inst := n.start()
	if !inst.ready() {
		w.harnessErr("node did not start")
		return
	}
	hc := newHistChecker(w, inst, newModel(), "C05")
	hc.exact = false
	w.stepHooks = append(w.stepHooks, hc.stepHook, auditHook(w, func() *Inst { return n.inst }, "C05"))

	// the fence under test, in three flavours, plus unrelated hooks
	var fence *fenceDef
	setup := w.program("setup", func(r *rand.Rand) []Cmd {
		fence = c05Fence(r, "hw", "fleet")
		var p []Cmd
		if fence.whereF == "" && r.Intn(6) == 0 {
			fence.whereF, fence.whereLo, fence.whereHi = "z", 10, 50 // a filter on the geometry, not on a field
		}
		// the same area in one of its other spellings
		if fence.area.circle {
			if r.Intn(2) == 0 {
				fence.cmd = []string{"within", "intersects"}[r.Intn(2)] // ... CIRCLE lat lon meters
			}
		} else {
			switch r.Intn(5) {
			case 0:
				fence.area.syntax = "object"
			case 1:
				// a geohash cell near the drawn place
				h := geohashOf((fence.area.minLat+fence.area.maxLat)/2, (fence.area.minLon+fence.area.maxLon)/2, 2+r.Intn(2))
				if cell, ok := geohashCell(h); ok {
					fence.area = fenceArea{minLat: cell[0], minLon: cell[1], maxLat: cell[2], maxLon: cell[3], syntax: "hash", hash: h}
				}
			case 2:
				fence.area.syntax = "get"
				ar := fence.area
				p = append(p, Cmd{Args: []string{"SET", "areas", ar.areaRefID(), "BOUNDS", fnum(ar.minLat), fnum(ar.minLon), fnum(ar.maxLat), fnum(ar.maxLon)}})
			}
		}
		if r.Intn(2) == 0 {
			// the names are first given another definition (all kinds detected, another area) and
			// then re-defined: nothing of the replaced definition may keep firing
			prev := c05Fence(r, "hw", "fleet")
			prev.detect, prev.accept, prev.glob, prev.whereF = nil, nil, "", ""
			p = append(p, Cmd{Args: append([]string{"SETHOOK", "hw", "http://hook0.sim:80/cb"}, prev.args()...)})
			p = append(p, Cmd{Args: append([]string{"SETCHAN", "hc"}, prev.args()...)})
		}
		p = append(p, Cmd{Args: append([]string{"SETHOOK", "hw", "http://hook0.sim:80/cb"}, fence.args()...), Tag: "fence"})
		p = append(p, Cmd{Args: append([]string{"SETCHAN", "hc"}, fence.args()...)})
		for i := 1; i <= nOther; i++ {
			key := []string{"fleet", "fleet", "other"}[r.Intn(3)]
			o := c05Fence(r, fmt.Sprintf("o%d", i), key)
			if r.Intn(2) == 0 {
				// overlapping the fence under test, so that it shares index candidates
				o.area = fence.area
				o.area.syntax, o.area.hash = "", "" // (the other hooks keep the plain spelling)
				if o.area.circle {
					o.cmd = "nearby"
					o.area.meters *= []float64{0.5, 2, 1}[r.Intn(3)]
				} else {
					if o.cmd == "nearby" {
						o.cmd = "within"
					}
					o.area.maxLat += float64(r.Intn(3))
				}
			}
			p = append(p, Cmd{Args: append([]string{"SETHOOK", o.name, fmt.Sprintf("http://hook%d.sim:80/cb", i)}, o.args()...)})
		}
		return p
	})
	// recover the fence definition from the (possibly replayed) program
	fence = nil
	for _, c := range setup {
		if c.Tag == "fence" {
			fence = fenceFromArgs("hw", c.Args[3:])
		}
	}
	if fence == nil {
		w.harnessErr("cannot parse the fence definition back from %v", setup[0].Args)
		return
	}
	w.stat("c05.area_syntax."+map[bool]string{true: "circle/" + fence.cmd, false: "rect/" + fence.area.syntax}[fence.area.circle], 1)
	sa := w.addActor(n, "127.0.0.1:50001", setup)
	sa.onReply = func(op *Op) { hc.onReply(op, sa.end.c.name) }
	if !w.Drain(30*time.Second, sa.done) {
		if !w.failed() {
			w.harnessErr("setup did not finish")
		}
		return
	}
	sub := w.addActor(n, "127.0.0.1:50002", []Cmd{{Args: []string{"SUBSCRIBE", "hc"}, GoLive: true}})
	live := w.addActor(n, "127.0.0.1:50003", []Cmd{{Args: fence.args(), GoLive: true}})
	ready := func() bool {
		return len(sub.ops) > 0 && sub.ops[0].Return >= 0 && len(live.ops) > 0 && live.ops[0].Return >= 0
	}
	if !w.Drain(30*time.Second, ready) {
		if !w.failed() {
			w.harnessErr("receivers did not get ready")
		}
		return
	}
	w.Settle()
	startEntries := len(hc.lm.entries)

	// writers move objects through the area
	nw := 1 + w.knob("writers", 2)
	per := []int{10, 20, 40}[w.knob("per", 3)]
	if w.deep() && w.knob("deep", 3) == 0 {
		per = 90
	}
	if w.knob("long", 8) == 1 {
		per = 130 // well over a hundred events per receiver: anything counted per receiver shows
	}
	var writers []*Actor
	for i := 0; i < nw; i++ {
		i := i
		prog := w.program(fmt.Sprintf("w%d", i+1), func(r *rand.Rand) []Cmd {
			in, out := fence.area.positions()
			ids := []string{"a1", "a2", "b1", "c1"}
			uniq := 0
			var p []Cmd
			for j := 0; j < per; j++ {
				id := pick(r, ids)
				var pos [2]float64
				if r.Intn(2) == 0 {
					pos = in[r.Intn(len(in))]
				} else {
					pos = out[r.Intn(len(out))]
				}
				uniq++
				// unique 5th decimal so that every write is distinguishable
				lat := fnum(pos[0] + float64(uniq*10+i)*0.00001)
				lon := fnum(pos[1])
				switch x := r.Intn(20); {
				case x < 11:
					a := []string{"SET", "fleet", id}
					if r.Intn(3) == 0 {
						a = append(a, "FIELD", "speed", fmt.Sprint(5+r.Intn(60)))
					}
					if r.Intn(8) == 0 {
						a = append(a, "EX", []string{"0.3", "1", "2"}[r.Intn(3)])
					}
					if !fence.area.circle && r.Intn(4) == 0 {
						// a rectangle object: clearly inside, clearly outside, or straddling the
						// border (which WITHIN and INTERSECTS fences read differently)
						ar := &fence.area
						cLat, cLon := (ar.minLat+ar.maxLat)/2, (ar.minLon+ar.maxLon)/2
						dLat, dLon := (ar.maxLat-ar.minLat)/2, (ar.maxLon-ar.minLon)/2
						u := float64(uniq*10+i) * 0.00001
						var b [4]float64
						switch r.Intn(4) {
						case 0:
							b = [4]float64{pos[0] - 0.1*dLat, pos[1] - 0.1*dLon, pos[0] + 0.1*dLat, pos[1] + 0.1*dLon}
						case 1: // across the east border
							b = [4]float64{cLat - 0.2*dLat, cLon + 0.5*dLon, cLat + 0.2*dLat, cLon + 2*dLon}
						case 2: // across the south border
							b = [4]float64{cLat - 2*dLat, cLon - 0.3*dLon, cLat - 0.5*dLat, cLon + 0.3*dLon}
						default: // covering the whole area
							b = [4]float64{cLat - 1.5*dLat, cLon - 1.5*dLon, cLat + 1.5*dLat, cLon + 1.5*dLon}
						}
						r5 := func(x float64) float64 { return math.Round(x*100000) / 100000 }
						p = append(p, Cmd{Args: append(a, "BOUNDS", fnum(r5(b[0]+u)), fnum(r5(b[1])), fnum(r5(b[2])), fnum(r5(b[3])))})
						break
					}
					if fence.whereF == "z" && r.Intn(3) != 0 {
						p = append(p, Cmd{Args: append(a, "POINT", lat, lon, []string{"5", "30", "70"}[r.Intn(3)])})
						break
					}
					p = append(p, Cmd{Args: append(a, "POINT", lat, lon)})
				case x < 14 && fence.whereF == "":
					p = append(p, Cmd{Args: []string{"FSET", "fleet", id, []string{"speed", "load"}[r.Intn(2)], fmt.Sprint(5 + r.Intn(60))}})
				case x < 16:
					p = append(p, Cmd{Args: []string{"DEL", "fleet", id}})
				case x < 17:
					p = append(p, Cmd{Args: []string{"PDEL", "fleet", []string{"a*", "*", "b1"}[r.Intn(3)]}})
				case x < 18:
					p = append(p, Cmd{Args: []string{"DROP", "fleet"}})
				case x < 19:
					p = append(p, Cmd{Args: []string{"SET", "other", id, "POINT", lat, lon}})
				default:
					p = append(p, Cmd{Args: []string{"GET", "fleet", id}})
				}
			}
			return p
		})
		a := w.addActor(n, simAddr(fmt.Sprintf("127.0.0.1:%d", 50010+i)), prog)
		a.onReply = func(op *Op) { hc.onReply(op, a.end.c.name) }
		writers = append(writers, a)
	}
	writersDone := func() bool {
		for _, a := range writers {
			if !a.done() {
				return false
			}
		}
		return true
	}
	w.RunChaos(nw*per*120, writersDone)
	if !w.failed() && !writersDone() {
		w.Drain(60*time.Second, writersDone)
	}
	if w.failed() {
		return
	}
	// let short TTLs expire and deliveries finish
	w.Sleep(3 * time.Second)
	hc.lm.poll()
	var want []fenceMsg
	ambiguous := 0
	for i := startEntries; i < len(hc.lm.entries); i++ {
		ms, amb := fence.expected(&hc.lm.entries[i], hc.lm.states[i], hc.lm.states[i+1])
		if amb {
			ambiguous++
		}
		want = append(want, ms...)
	}
	if ambiguous > 0 {
		w.stat("c05.runs_with_ambiguous_positions", 1)
		return
	}
	required := 0
	for _, m := range want {
		if !m.optional {
			required++
		}
	}
	// wait (bounded) until every receiver holds at least the required count
	recvHook := func() []fenceMsg {
		var out []fenceMsg
		for _, d := range main.recv {
			if d.Status != 200 {
				continue
			}
			m, _, err := parseFenceMsg(d.Body)
			if err != nil {
				w.violate("C05/format", "webhook body: %v", err)
				return nil
			}
			out = append(out, m)
		}
		return out
	}
	recvStream := func(a *Actor, channel bool) []fenceMsg {
		var out []fenceMsg
		for i, it := range a.stream {
			if i == 0 {
				continue // the go-live acknowledgement
			}
			body := it.V.S
			if channel {
				if it.V.T != '*' || len(it.V.A) != 3 || it.V.A[0].S != "message" {
					continue
				}
				body = it.V.A[2].S
			}
			m, _, err := parseFenceMsg(body)
			if err != nil {
				w.violate("C05/format", "stream message: %v", err)
				return nil
			}
			out = append(out, m)
		}
		return out
	}
	w.Drain(10*time.Second, func() bool {
		return accepted() >= required && len(sub.stream)-1 >= required && len(live.stream)-1 >= required
	})
	w.Sleep(500 * time.Millisecond)
	if w.failed() {
		return
	}
	for _, rcv := range []struct {
		name string
		got  []fenceMsg
	}{{"webhook", recvHook()}, {"channel", recvStream(sub, true)}, {"live connection", recvStream(live, false)}} {
		if w.failed() {
			return
		}
		if err := compareFenceSeq(want, rcv.got, fence.nofields); err != nil {
			if os.Getenv("VERIF_DEBUG") != "" {
				for i, m := range want {
					fmt.Fprintf(os.Stderr, "DEBUG want[%d] %s opt=%v\n", i, m, m.optional)
				}
				for i, m := range rcv.got {
					fmt.Fprintf(os.Stderr, "DEBUG got[%d] %s\n", i, m)
				}
				for i, d := range main.recv {
					fmt.Fprintf(os.Stderr, "DEBUG raw[%d] step=%d %s\n", i, d.Step, clipStr(d.Body, 200))
				}
			}
			w.violate("C05/"+strings.Fields(rcv.name)[0], "fence [%s] as %s: %v (expected %d notifications, %d of them required; received %d)",
				strings.Join(fence.args(), " "), rcv.name, err, len(want), required, len(rcv.got))
			return
		}
	}
	hc.finish(func(e *lmEntry) bool { return false })
	w.stat("c05.notifications_checked", len(want)*3)
	kinds := map[string]bool{}
	for _, m := range want {
		kinds[m.command+"/"+m.detect] = true
		w.stat("probe.detect."+m.command+"/"+m.detect, 1)
	}
	w.nontriv = len(want) >= 3 && len(kinds) >= 2
	var sm []string
	for i, m := range want {
		if i < 8 {
			sm = append(sm, m.String())
		}
	}
	w.sample = map[string]interface{}{"seed": w.seed, "fence": strings.Join(fence.args(), " "), "other_hooks": nOther, "expected": len(want), "first_expected": sm}
}

// fenceFromArgs parses what fenceDef.args produced.
func fenceFromArgs(name string, a []string) *fenceDef {
	if len(a) < 4 {
		return nil
	}
	f := &fenceDef{name: name, cmd: lower(a[0]), key: a[1]}
	i := 2
	num := func(s string) float64 { var x float64; fmt.Sscan(s, &x); return x }
	for i < len(a) {
		switch strings.ToUpper(a[i]) {
		case "MATCH":
			f.glob = a[i+1]
			i += 2
		case "WHERE":
			f.whereF, f.whereLo, f.whereHi = a[i+1], num(a[i+2]), num(a[i+3])
			i += 4
		case "NOFIELDS":
			f.nofields = true
			i++
		case "FENCE":
			i++
		case "DETECT":
			f.detect = map[string]bool{}
			for _, d := range strings.Split(a[i+1], ",") {
				f.detect[d] = true
			}
			i += 2
		case "COMMANDS":
			f.accept = map[string]bool{}
			for _, d := range strings.Split(a[i+1], ",") {
				f.accept[d] = true
			}
			i += 2
		case "POINT":
			f.area = fenceArea{circle: true, lat: num(a[i+1]), lon: num(a[i+2]), meters: num(a[i+3])}
			i += 4
		case "BOUNDS":
			f.area = fenceArea{minLat: num(a[i+1]), minLon: num(a[i+2]), maxLat: num(a[i+3]), maxLon: num(a[i+4])}
			i += 5
		case "CIRCLE":
			f.area = fenceArea{circle: true, lat: num(a[i+1]), lon: num(a[i+2]), meters: num(a[i+3])}
			i += 4
		case "HASH":
			cell, ok := geohashCell(a[i+1])
			if !ok {
				return nil
			}
			f.area = fenceArea{minLat: cell[0], minLon: cell[1], maxLat: cell[2], maxLon: cell[3], syntax: "hash", hash: a[i+1]}
			i += 2
		case "OBJECT":
			var pg struct {
				Coordinates [][][]float64 `json:"coordinates"`
			}
			if json.Unmarshal([]byte(a[i+1]), &pg) != nil || len(pg.Coordinates) != 1 || len(pg.Coordinates[0]) != 5 {
				return nil
			}
			c := pg.Coordinates[0]
			f.area = fenceArea{minLat: c[0][1], minLon: c[0][0], maxLat: c[2][1], maxLon: c[2][0], syntax: "object"}
			i += 2
		case "GET":
			parts := strings.Split(a[i+2], "_")
			if len(parts) != 5 {
				return nil
			}
			f.area = fenceArea{minLat: num(parts[1]), minLon: num(parts[2]), maxLat: num(parts[3]), maxLon: num(parts[4]), syntax: "get"}
			i += 3
		default:
			return nil
		}
	}
	return f
}
