package server

// Disk full on the live log. bin/build compiles a copy of aof.go in which flushAOF's write of the
// log buffer calls verifAOFWrite and its panics call verifPanic; nothing else is changed.

import (
	"os"
	"runtime"
	"syscall"
)

const panicPoint = "process-died"

// diskFullAvailable: the build found flushAOF in the expected shape (see bin/build).
var diskFullSeam bool

func verifAOFWrite(s *Server, b []byte) (int, error) {
	diskFullSeam = true
	l, ok := s.mu.(*simLock)
	if !ok || l.inst.dead || l.inst.diskFullAt == 0 || l.inst.flushes < l.inst.diskFullAt {
		return s.aof.Write(b)
	}
	inst := l.inst
	n := 0
	if !inst.diskFull {
		inst.diskFull = true
		if k := len(b) * inst.diskFullKeep / 4; k > 0 {
			if k >= len(b) {
				k = len(b) - 1
			}
			var err error
			if n, err = s.aof.Write(b[:k]); err != nil {
				return n, err
			}
		}
	}
	l.sim.stat("fault.disk_full_write", 1)
	l.sim.logf("DISKFULL node %s: log write of %d bytes took %d", inst.node.name, len(b), n)
	return n, &os.PathError{Op: "write", Path: s.aof.Name(), Err: syscall.ENOSPC}
}

// verifPanic: a panic that answers an injected disk-full error is the death of that simulated
// process: its goroutine stops here for good and the property crashes the node. Any other panic
// is a real one.
func verifPanic(s *Server, v interface{}) {
	l, ok := s.mu.(*simLock)
	if !ok || !l.inst.diskFull {
		panic(v)
	}
	if !l.inst.dead {
		l.sim.stat("fault.disk_full_process_death", 1)
		l.sim.logf("PANIC node %s: %v", l.inst.node.name, v)
	}
	l.point(panicPoint)
	// only a zombie is ever resumed here: unwind (deferred unlocks run) and end
	runtime.Goexit()
}
