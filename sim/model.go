package server

// Reference model of the tile38 keyspace: collection -> id -> (object, fields,
// deadline) plus hook/channel registry. Deliberately knows nothing about
// indexes, buffers, files or locks.
//
// Conventions that are documentation, not logic, are stated once here:
//  * a field whose value is the number 0 is not stored; reading it gives 0
//  * SET without EX clears the deadline; SET keeps fields it does not mention
//  * FSET counts (and logs) only fields whose value actually changes
//  * JSET/JDEL on a geometry re-enter SET (fields kept, deadline cleared)
//  * a collection exists iff it holds at least one object
// Generated inputs avoid regions where the documentation is silent (padded
// values, numbers with several spellings, strings differing only in case).

import (
	"encoding/json"
	"fmt"
	"math"
	"sort"
	"strconv"
	"strings"
	"time"
)

type mObj struct {
	kind    string // "point", "bounds", "hash", "object", "string"
	spatial bool
	// canonical content
	json     string     // canonical JSON for point/bounds/object (and JSON strings)
	str      string     // raw value for kind "string"
	strExact bool       // the string was written verbatim (SET ... STRING)
	cell     [4]float64 // hash: minlat, minlon, maxlat, maxlon
	hash     string
	fields   map[string]string
	hasDL    bool
	deadline time.Duration // virtual time
}

// emptyGeo reports whether a GeoJSON object holds no position at all.
func (o *mObj) emptyGeo() bool {
	if o.kind != "object" {
		return false
	}
	var v map[string]interface{}
	return json.Unmarshal([]byte(o.json), &v) == nil && emptyGeoJSON(v)
}

func (o *mObj) clone() *mObj {
	c := *o
	c.fields = make(map[string]string, len(o.fields))
	for k, v := range o.fields {
		c.fields[k] = v
	}
	return &c
}

type mHook struct {
	channel   bool
	name      string
	key       string
	endpoints []string
	args      []string // command tail as stored (NEARBY ... FENCE ...)
	metas     [][2]string
	hasDL     bool
	deadline  time.Duration
}

type Model struct {
	cols  map[string]map[string]*mObj
	hooks map[string]*mHook
	// nowHi, when larger than the `now` passed to apply, makes time-dependent
	// read replies (TTL) accept any instant in [now, nowHi]
	nowHi time.Duration
}

func newModel() *Model {
	return &Model{cols: map[string]map[string]*mObj{}, hooks: map[string]*mHook{}}
}

func (m *Model) clone() *Model {
	c := newModel()
	for k, col := range m.cols {
		nc := make(map[string]*mObj, len(col))
		for id, o := range col {
			nc[id] = o // objects are replaced, never mutated in place
		}
		c.cols[k] = nc
	}
	for n, h := range m.hooks {
		c.hooks[n] = h
	}
	return c
}

func (m *Model) get(key, id string) *mObj {
	if col := m.cols[key]; col != nil {
		return col[id]
	}
	return nil
}

func (m *Model) put(key, id string, o *mObj) {
	col := m.cols[key]
	if col == nil {
		col = map[string]*mObj{}
		m.cols[key] = col
	}
	col[id] = o
}

func (m *Model) del(key, id string) bool {
	col := m.cols[key]
	if col == nil || col[id] == nil {
		return false
	}
	delete(col, id)
	if len(col) == 0 {
		delete(m.cols, key)
	}
	return true
}

func (m *Model) sortedKeys() []string {
	ks := make([]string, 0, len(m.cols))
	for k := range m.cols {
		ks = append(ks, k)
	}
	sort.Strings(ks)
	return ks
}

func sortedIDs(col map[string]*mObj) []string {
	ids := make([]string, 0, len(col))
	for id := range col {
		ids = append(ids, id)
	}
	sort.Strings(ids)
	return ids
}

// ---------------------------------------------------------------------------
// JSON helpers

func canonJSON(s string) (string, bool) {
	var v interface{}
	if err := json.Unmarshal([]byte(s), &v); err != nil {
		return "", false
	}
	b, err := json.Marshal(v)
	if err != nil {
		return "", false
	}
	return string(b), true
}

func fnum(f float64) string { return strconv.FormatFloat(f, 'f', -1, 64) }

func pointJSON(lat, lon float64, z *float64) string {
	if z != nil {
		return fmt.Sprintf(`{"coordinates":[%s,%s,%s],"type":"Point"}`, fnum(lon), fnum(lat), fnum(*z))
	}
	return fmt.Sprintf(`{"coordinates":[%s,%s],"type":"Point"}`, fnum(lon), fnum(lat))
}

func boundsJSON(minlat, minlon, maxlat, maxlon float64) string {
	s := fmt.Sprintf(`{"type":"Polygon","coordinates":[[[%s,%s],[%s,%s],[%s,%s],[%s,%s],[%s,%s]]]}`,
		fnum(minlon), fnum(minlat), fnum(maxlon), fnum(minlat), fnum(maxlon), fnum(maxlat),
		fnum(minlon), fnum(maxlat), fnum(minlon), fnum(minlat))
	c, _ := canonJSON(s)
	return c
}

const geohashAlphabet = "0123456789bcdefghjkmnpqrstuvwxyz"

// geohashOf encodes a position with the given number of characters (standard algorithm).
func geohashOf(lat, lon float64, n int) string {
	latR, lonR := [2]float64{-90, 90}, [2]float64{-180, 180}
	var out []byte
	even, bit, ch := true, 0, 0
	for len(out) < n {
		if even {
			mid := (lonR[0] + lonR[1]) / 2
			if lon >= mid {
				ch = ch<<1 | 1
				lonR[0] = mid
			} else {
				ch <<= 1
				lonR[1] = mid
			}
		} else {
			mid := (latR[0] + latR[1]) / 2
			if lat >= mid {
				ch = ch<<1 | 1
				latR[0] = mid
			} else {
				ch <<= 1
				latR[1] = mid
			}
		}
		even = !even
		bit++
		if bit == 5 {
			out = append(out, geohashAlphabet[ch])
			bit, ch = 0, 0
		}
	}
	return string(out)
}

// geohashCell decodes a geohash to its bounding box (standard algorithm).
func geohashCell(h string) (cell [4]float64, ok bool) {
	lat := [2]float64{-90, 90}
	lon := [2]float64{-180, 180}
	even := true
	for i := 0; i < len(h); i++ {
		idx := strings.IndexByte(geohashAlphabet, h[i])
		if idx < 0 {
			return cell, false
		}
		for b := 4; b >= 0; b-- {
			bit := (idx >> uint(b)) & 1
			if even {
				mid := (lon[0] + lon[1]) / 2
				if bit == 1 {
					lon[0] = mid
				} else {
					lon[1] = mid
				}
			} else {
				mid := (lat[0] + lat[1]) / 2
				if bit == 1 {
					lat[0] = mid
				} else {
					lat[1] = mid
				}
			}
			even = !even
		}
	}
	return [4]float64{lat[0], lon[0], lat[1], lon[1]}, true
}

// matches reports whether the object string a server returned (GET/SCAN object
// output) is this model object.
func (o *mObj) matches(got string) error {
	switch o.kind {
	case "string":
		if o.json != "" && !o.strExact {
			// JSON document kept as a string: compare semantically
			if c, ok := canonJSON(got); ok && c == o.json {
				return nil
			}
			return fmt.Errorf("string(json) object: got %s want %s", clipStr(got, 200), clipStr(o.json, 200))
		}
		if got != o.str {
			return fmt.Errorf("string object: got %q want %q", clipStr(got, 200), clipStr(o.str, 200))
		}
		return nil
	case "hash":
		var p struct {
			Type        string    `json:"type"`
			Coordinates []float64 `json:"coordinates"`
		}
		if err := json.Unmarshal([]byte(got), &p); err != nil || p.Type != "Point" || len(p.Coordinates) != 2 {
			return fmt.Errorf("hash object: got %s, want a Point", clipStr(got, 200))
		}
		lat, lon := p.Coordinates[1], p.Coordinates[0]
		const eps = 1e-9 // the decoded centre is rounded and may sit on the cell's edge
		if lat < o.cell[0]-eps || lat > o.cell[2]+eps || lon < o.cell[1]-eps || lon > o.cell[3]+eps {
			return fmt.Errorf("hash object %s: point %v,%v outside cell %v", o.hash, lat, lon, o.cell)
		}
		return nil
	default:
		c, ok := canonJSON(got)
		if !ok || c != o.json {
			return fmt.Errorf("%s object: got %s want %s", o.kind, clipStr(got, 300), clipStr(o.json, 300))
		}
		return nil
	}
}

// ---------------------------------------------------------------------------
// field values

type fkind int

const (
	fkNull fkind = iota
	fkFalse
	fkNumber
	fkString
	fkTrue
	fkJSON
)

// fieldValue classifies a (generated, unambiguous) field value.
func fieldValue(s string) (k fkind, num float64, data string) {
	if u, ok := unquoteField(s); ok {
		return fkString, 0, u // a string whose text looks like another kind is kept in its quoted form
	}
	if f, err := strconv.ParseFloat(s, 64); err == nil {
		return fkNumber, f, s
	}
	switch s {
	case "true":
		return fkTrue, 0, s
	case "false":
		return fkFalse, 0, s
	case "null":
		return fkNull, 0, s
	}
	if len(s) > 0 && (s[0] == '{' || s[0] == '[') {
		if c, ok := canonJSON(s); ok {
			_ = c
			return fkJSON, 0, s
		}
	}
	return fkString, 0, s
}

func fieldEquals(a, b string) bool {
	ka, na, da := fieldValue(a)
	kb, nb, db := fieldValue(b)
	if ka != kb {
		return false
	}
	if ka == fkNumber {
		return na == nb
	}
	return da == db
}

func fieldIsZero(s string) bool { return s == "0" }

// unquoteField: a JSON string literal -> the string it denotes.
func unquoteField(s string) (string, bool) {
	if len(s) >= 2 && s[0] == '"' && s[len(s)-1] == '"' {
		var u string
		if json.Unmarshal([]byte(s), &u) == nil {
			return u, true
		}
	}
	return "", false
}

// canonField is the form in which a field value of the given kind and text is stored and
// compared: the text itself, except for a string whose text would read as another kind, which
// is JSON-quoted.
func canonField(kind fkind, text string) string {
	if kind == fkString {
		if k, _, _ := fieldValue(text); k != fkString {
			b, _ := json.Marshal(text)
			return string(b)
		}
	}
	return text
}

// fieldData is what a reply shows of a stored field value (strings without their quotes).
func fieldData(v string) string {
	if u, ok := unquoteField(v); ok {
		return u
	}
	return v
}

// fieldsExpectData is fieldsExpect over the values as replies show them.
func fieldsExpectData(fields map[string]string) string {
	m := make(map[string]string, len(fields))
	for k, v := range fields {
		m[k] = fieldData(v)
	}
	return fieldsExpect(m)
}

func isReservedField(n string) bool { return n == "z" || n == "lat" || n == "lon" }

// setField applies one FIELD assignment; reports whether the list changed.
func setField(fields map[string]string, name, val string) bool {
	// a JSON string literal is the string it denotes (this is how a rewritten log spells
	// string fields)
	if u, ok := unquoteField(val); ok {
		// ... unless its text would read as a number, a boolean, null or a JSON document: such a
		// string stays a string (its kind is part of the value), and is kept here in quoted form
		val = canonField(fkString, u)
	}
	prev, ok := fields[name]
	if !ok {
		prev = "0"
	}
	if fieldEquals(prev, val) {
		return false
	}
	if fieldIsZero(val) {
		delete(fields, name)
		return true
	}
	fields[name] = val
	return true
}

// ---------------------------------------------------------------------------
// expectations

// expect checks a reply; nil means the reply is what the model predicts.
type expect func(v rv) error

func expExact(want string) expect {
	return func(v rv) error {
		if v.String() != want {
			return fmt.Errorf("got %s want %s", clipStr(v.String(), 300), clipStr(want, 300))
		}
		return nil
	}
}

func expErr(substr string) expect {
	return func(v rv) error {
		if v.T != '-' || !strings.Contains(v.S, substr) {
			return fmt.Errorf("got %s want error containing %q", clipStr(v.String(), 300), substr)
		}
		return nil
	}
}

func expInt(n int) expect { return expExact(":" + strconv.Itoa(n)) }

var expOK = expExact("+OK")
var expNil = expExact("nil")

// Result of applying one command to the model.
type mResult struct {
	exp      expect
	changed  bool // the command changed the model state (must be logged)
	undef    bool // outside the modelled fragment: no expectation
	errored  bool // model predicts an error / negative reply
	errReply bool // the predicted reply is an error (-ERR ...), not just a negative answer
}

func res(e expect, changed bool) mResult { return mResult{exp: e, changed: changed} }
func neg(e expect) mResult               { return mResult{exp: e, errored: true} }
func negE(substr string) mResult         { return mResult{exp: expErr(substr), errored: true, errReply: true} }

func fieldsExpect(fields map[string]string) string {
	names := make([]string, 0, len(fields))
	for n := range fields {
		names = append(names, n)
	}
	sort.Strings(names)
	var parts []string
	for _, n := range names {
		parts = append(parts, strconv.Quote(n), strconv.Quote(fields[n]))
	}
	return "[" + strings.Join(parts, " ") + "]"
}

// fieldsOf normalises a flat [name value ...] reply array into sorted form.
func fieldsOfReply(v rv) (string, error) {
	if v.T != '*' || len(v.A)%2 != 0 {
		return "", fmt.Errorf("fields reply is not a flat pair array: %s", v.String())
	}
	m := map[string]string{}
	for i := 0; i+1 < len(v.A); i += 2 {
		if _, dup := m[v.A[i].S]; dup {
			return "", fmt.Errorf("duplicate field %q in reply", v.A[i].S)
		}
		m[v.A[i].S] = v.A[i+1].S
	}
	return fieldsExpect(m), nil
}

// ---------------------------------------------------------------------------

func lower(s string) string { return strings.ToLower(s) }

// parseSetArgs parses the tail of SET (after key id) for the modelled fragment.
type setSpec struct {
	fields [][2]string
	ex     *float64
	nx, xx bool
	obj    *mObj
	bad    bool
}

func parseSet(args []string) setSpec {
	var sp setSpec
	i := 0
	for i < len(args) {
		switch lower(args[i]) {
		case "field":
			if i+2 >= len(args) {
				sp.bad = true
				return sp
			}
			sp.fields = append(sp.fields, [2]string{args[i+1], args[i+2]})
			i += 3
		case "ex":
			if i+1 >= len(args) {
				sp.bad = true
				return sp
			}
			f, err := strconv.ParseFloat(args[i+1], 64)
			if err != nil {
				sp.bad = true
				return sp
			}
			sp.ex = &f
			i += 2
		case "nx":
			sp.nx = true
			i++
		case "xx":
			sp.xx = true
			i++
		case "string":
			if i+1 >= len(args) {
				sp.bad = true
				return sp
			}
			o := &mObj{kind: "string", str: args[i+1], strExact: true}
			if len(o.str) > 0 && o.str[0] == '{' {
				if c, ok := canonJSON(o.str); ok {
					o.json = c
				}
			}
			sp.obj = o
			i += 2
		case "point":
			if i+2 >= len(args) {
				sp.bad = true
				return sp
			}
			lat, e1 := strconv.ParseFloat(args[i+1], 64)
			lon, e2 := strconv.ParseFloat(args[i+2], 64)
			if e1 != nil || e2 != nil {
				sp.bad = true
				return sp
			}
			i += 3
			var zp *float64
			if i < len(args) {
				if z, err := strconv.ParseFloat(args[i], 64); err == nil {
					zp = &z
					i++
				}
			}
			sp.obj = &mObj{kind: "point", spatial: true, json: pointJSON(lat, lon, zp)}
		case "bounds":
			if i+4 >= len(args) {
				sp.bad = true
				return sp
			}
			var v [4]float64
			for j := 0; j < 4; j++ {
				f, err := strconv.ParseFloat(args[i+1+j], 64)
				if err != nil {
					sp.bad = true
					return sp
				}
				v[j] = f
			}
			i += 5
			sp.obj = &mObj{kind: "bounds", spatial: true, json: boundsJSON(v[0], v[1], v[2], v[3])}
		case "hash":
			if i+1 >= len(args) {
				sp.bad = true
				return sp
			}
			cell, ok := geohashCell(args[i+1])
			if !ok {
				sp.bad = true
				return sp
			}
			sp.obj = &mObj{kind: "hash", spatial: true, cell: cell, hash: args[i+1]}
			i += 2
		case "object":
			if i+1 >= len(args) {
				sp.bad = true
				return sp
			}
			c, ok := canonJSON(args[i+1])
			if !ok {
				sp.bad = true
				return sp
			}
			sp.obj = &mObj{kind: "object", spatial: true, json: c}
			i += 2
		default:
			sp.bad = true
			return sp
		}
	}
	if sp.obj == nil || (sp.nx && sp.xx) {
		sp.bad = true
	}
	for _, f := range sp.fields {
		if isReservedField(f[0]) {
			sp.bad = true
		}
	}
	return sp
}

// globMatch implements the documented glob subset used by generated patterns:
// literals, '*' and '?'.
func globMatch(pat, s string) bool {
	if pat == "" {
		return s == ""
	}
	switch pat[0] {
	case '*':
		for i := 0; i <= len(s); i++ {
			if globMatch(pat[1:], s[i:]) {
				return true
			}
		}
		return false
	case '?':
		return len(s) > 0 && globMatch(pat[1:], s[1:])
	case '[':
		// a class of single characters and ranges (never in first position in generated
		// patterns: there tile38 computes scan limits from the bracket itself)
		end := strings.IndexByte(pat, ']')
		if end < 0 || len(s) == 0 {
			return false
		}
		ok := false
		for cl := pat[1:end]; len(cl) > 0; {
			if len(cl) >= 3 && cl[1] == '-' {
				ok = ok || (s[0] >= cl[0] && s[0] <= cl[2])
				cl = cl[3:]
			} else {
				ok = ok || s[0] == cl[0]
				cl = cl[1:]
			}
		}
		return ok && globMatch(pat[end+1:], s[1:])
	default:
		return len(s) > 0 && s[0] == pat[0] && globMatch(pat[1:], s[1:])
	}
}

// apply runs one command against the model at virtual time now.
func (m *Model) apply(args []string, now time.Duration) mResult {
	if len(args) == 0 {
		return mResult{undef: true}
	}
	cmd := lower(args[0])
	a := args[1:]
	switch cmd {
	case "set":
		if len(a) < 2 {
			return mResult{undef: true}
		}
		key, id := a[0], a[1]
		sp := parseSet(a[2:])
		if sp.bad {
			return mResult{undef: true}
		}
		old := m.get(key, id)
		if sp.nx && old != nil {
			return neg(expNil)
		}
		if sp.xx && old == nil {
			return neg(expNil)
		}
		o := sp.obj
		o.fields = map[string]string{}
		if old != nil {
			for k, v := range old.fields {
				o.fields[k] = v
			}
		}
		for _, f := range sp.fields {
			setField(o.fields, f[0], f[1])
		}
		if sp.ex != nil {
			o.hasDL = true
			o.deadline = now + time.Duration(*sp.ex*float64(time.Second))
		}
		m.put(key, id, o)
		return res(expOK, true)
	case "fset":
		if len(a) < 4 {
			return mResult{undef: true}
		}
		key, id := a[0], a[1]
		rest := a[2:]
		xx := false
		var fs [][2]string
		for i := 0; i < len(rest); i++ {
			if lower(rest[i]) == "xx" {
				xx = true
				continue
			}
			if i+1 >= len(rest) || isReservedField(rest[i]) {
				return mResult{undef: true}
			}
			fs = append(fs, [2]string{rest[i], rest[i+1]})
			i++
		}
		if m.cols[key] == nil {
			return negE(("key not found"))
		}
		old := m.get(key, id)
		if old == nil {
			if xx {
				return neg(expInt(0))
			}
			return negE(("id not found"))
		}
		o := old.clone()
		n := 0
		for _, f := range fs {
			if setField(o.fields, f[0], f[1]) {
				n++
			}
		}
		if n > 0 {
			m.put(key, id, o)
		}
		return res(expInt(n), n > 0)
	case "del":
		if len(a) != 2 {
			return mResult{undef: true}
		}
		if m.del(a[0], a[1]) {
			return res(expInt(1), true)
		}
		return neg(expInt(0))
	case "pdel":
		if len(a) != 2 {
			return mResult{undef: true}
		}
		col := m.cols[a[0]]
		n := 0
		for _, id := range sortedIDs(col) {
			if globMatch(a[1], id) {
				m.del(a[0], id)
				n++
			}
		}
		if n == 0 {
			return neg(expInt(0))
		}
		return res(expInt(n), true)
	case "drop":
		if len(a) != 1 {
			return mResult{undef: true}
		}
		if m.cols[a[0]] == nil {
			return neg(expInt(0))
		}
		delete(m.cols, a[0])
		return res(expInt(1), true)
	case "rename", "renamenx":
		if len(a) != 2 {
			return mResult{undef: true}
		}
		nx := cmd == "renamenx"
		col := m.cols[a[0]]
		if col == nil {
			return negE(("key not found"))
		}
		for _, h := range m.hooks {
			if h.key == a[0] || h.key == a[1] {
				return negE(("key has"))
			}
		}
		if m.cols[a[1]] != nil && nx {
			return neg(expInt(0))
		}
		if a[0] != a[1] {
			delete(m.cols, a[0])
			m.cols[a[1]] = col
		}
		if nx {
			return res(expInt(1), true)
		}
		return res(expOK, true)
	case "flushdb":
		if len(a) != 0 {
			return mResult{undef: true}
		}
		m.cols = map[string]map[string]*mObj{}
		m.hooks = map[string]*mHook{}
		return res(expOK, true)
	case "expire":
		if len(a) != 3 {
			return mResult{undef: true}
		}
		secs, err := strconv.ParseFloat(a[2], 64)
		if err != nil {
			return mResult{undef: true}
		}
		old := m.get(a[0], a[1])
		if old == nil {
			return neg(expInt(0))
		}
		o := old.clone()
		o.hasDL = true
		o.deadline = now + time.Duration(secs*float64(time.Second))
		m.put(a[0], a[1], o)
		return res(expInt(1), true)
	case "persist":
		if len(a) != 2 {
			return mResult{undef: true}
		}
		old := m.get(a[0], a[1])
		if old == nil || !old.hasDL {
			return neg(expInt(0))
		}
		o := old.clone()
		o.hasDL = false
		o.deadline = 0
		m.put(a[0], a[1], o)
		return res(expInt(1), true)
	case "ttl":
		if len(a) != 2 {
			return mResult{undef: true}
		}
		o := m.get(a[0], a[1])
		if o == nil {
			return neg(expInt(-2))
		}
		if !o.hasDL {
			return res(expInt(-1), false)
		}
		hi := int(math.Max(float64(o.deadline-now)/float64(time.Second), 0))
		lo := hi
		if m.nowHi > now {
			lo = int(math.Max(float64(o.deadline-m.nowHi)/float64(time.Second), 0))
		}
		return res(func(v rv) error {
			if v.T != ':' || int(v.N) < lo || int(v.N) > hi {
				return fmt.Errorf("got %s want an integer in [%d,%d]", v.String(), lo, hi)
			}
			return nil
		}, false)
	case "get":
		return m.applyGet(a)
	case "fget":
		if len(a) != 3 {
			return mResult{undef: true}
		}
		if m.cols[a[0]] == nil {
			return negE(("key not found"))
		}
		o := m.get(a[0], a[1])
		if o == nil {
			return negE(("id not found"))
		}
		v, ok := o.fields[a[2]]
		if !ok {
			v = "0"
		}
		return res(expExact(strconv.Quote(fieldData(v))), false)
	case "exists":
		if len(a) != 2 {
			return mResult{undef: true}
		}
		if m.cols[a[0]] == nil {
			return negE(("key not found"))
		}
		if m.get(a[0], a[1]) != nil {
			return res(expInt(1), false)
		}
		return res(expInt(0), false)
	case "fexists":
		if len(a) != 3 {
			return mResult{undef: true}
		}
		if m.cols[a[0]] == nil {
			return negE(("key not found"))
		}
		o := m.get(a[0], a[1])
		if o == nil {
			return negE(("id not found"))
		}
		if _, ok := o.fields[a[2]]; ok {
			return res(expInt(1), false)
		}
		return res(expInt(0), false)
	case "type":
		if len(a) != 1 {
			return mResult{undef: true}
		}
		if m.cols[a[0]] == nil {
			return res(expExact("+none"), false)
		}
		return res(expExact("+hash"), false)
	case "keys":
		if len(a) != 1 {
			return mResult{undef: true}
		}
		var parts []string
		for _, k := range m.sortedKeys() {
			if globMatch(a[0], k) {
				parts = append(parts, strconv.Quote(k))
			}
		}
		return res(expExact("["+strings.Join(parts, " ")+"]"), false)
	case "scan":
		return m.applyScan(a)
	case "within":
		// only the whole-world query: WITHIN key IDS BOUNDS -90 -180 90 180
		if len(a) != 7 || lower(a[1]) != "ids" || lower(a[2]) != "bounds" || a[3] != "-90" || a[4] != "-180" || a[5] != "90" || a[6] != "180" {
			return mResult{undef: true}
		}
		var want []string
		col := m.cols[a[0]]
		for _, id := range sortedIDs(col) {
			if col[id].spatial && !col[id].emptyGeo() {
				want = append(want, id) // (an empty geometry has no extent: no area contains it)
			}
		}
		if len(want) >= 100 {
			return mResult{undef: true}
		}
		return res(func(v rv) error {
			if v.T != '*' || len(v.A) != 2 || v.A[1].T != '*' {
				return fmt.Errorf("within reply shape: %s", clipStr(v.String(), 200))
			}
			var got []string
			for _, x := range v.A[1].A {
				got = append(got, x.S)
			}
			sort.Strings(got)
			if strings.Join(got, ",") != strings.Join(want, ",") {
				return fmt.Errorf("within returned ids %v want %v", got, want)
			}
			return nil
		}, false)
	case "jget":
		return m.applyJget(a)
	case "jset":
		return m.applyJset(a)
	case "jdel":
		return m.applyJdel(a)
	case "publish":
		if len(a) != 2 {
			return mResult{undef: true}
		}
		return res(func(v rv) error {
			if v.T != ':' || v.N < 0 {
				return fmt.Errorf("got %s want a receiver count", v.String())
			}
			return nil
		}, false)
	case "sethook", "setchan":
		return m.applySetHook(cmd == "setchan", a, now)
	case "delhook", "delchan":
		if len(a) != 1 {
			return mResult{undef: true}
		}
		h := m.hooks[a[0]]
		if h == nil || h.channel != (cmd == "delchan") {
			return neg(expInt(0))
		}
		delete(m.hooks, a[0])
		return res(expInt(1), true)
	case "pdelhook", "pdelchan":
		if len(a) != 1 {
			return mResult{undef: true}
		}
		n := 0
		for name, h := range m.hooks {
			if h.channel == (cmd == "pdelchan") && globMatch(a[0], name) {
				delete(m.hooks, name)
				n++
			}
		}
		if n == 0 {
			return neg(expInt(0))
		}
		return res(expInt(n), true)
	case "hooks", "chans":
		if len(a) != 1 {
			return mResult{undef: true}
		}
		want := m.hooksExpect(cmd == "chans", a[0])
		return res(func(v rv) error {
			got, err := normHooksReply(v)
			if err != nil {
				return err
			}
			if got != want {
				return fmt.Errorf("got %s want %s", clipStr(got, 400), clipStr(want, 400))
			}
			return nil
		}, false)
	}
	return mResult{undef: true}
}

func (m *Model) applyGet(a []string) mResult {
	if len(a) < 2 {
		return mResult{undef: true}
	}
	o := m.get(a[0], a[1])
	withfields := false
	out := "object"
	prec := 0
	for i := 2; i < len(a); i++ {
		switch lower(a[i]) {
		case "withfields":
			withfields = true
		case "object", "point", "bounds":
			out = lower(a[i])
		case "hash":
			out = "hash"
			if i+1 >= len(a) {
				return mResult{undef: true}
			}
			p, err := strconv.Atoi(a[i+1])
			if err != nil || p < 1 || p > 12 {
				return mResult{undef: true}
			}
			prec = p
			i++
		default:
			return mResult{undef: true}
		}
	}
	if o == nil {
		return neg(expNil)
	}
	wantFields := ""
	if withfields && len(o.fields) > 0 {
		wantFields = fieldsExpectData(o.fields)
	}
	checkMain := func(v rv) error {
		switch out {
		case "object":
			if v.T != '$' {
				return fmt.Errorf("object reply is not a bulk string: %s", clipStr(v.String(), 200))
			}
			return o.matches(v.S)
		case "hash":
			if o.kind == "hash" && prec <= len(o.hash) {
				if v.T != '$' || v.S != o.hash[:prec] {
					return fmt.Errorf("hash reply %s want %q", v.String(), o.hash[:prec])
				}
			}
			return nil
		case "point":
			if o.kind == "point" {
				var p struct {
					Coordinates []float64 `json:"coordinates"`
				}
				json.Unmarshal([]byte(o.json), &p)
				want := []string{strconv.Quote(fnum(p.Coordinates[1])), strconv.Quote(fnum(p.Coordinates[0]))}
				if len(p.Coordinates) == 3 && p.Coordinates[2] != 0 {
					want = append(want, strconv.Quote(fnum(p.Coordinates[2])))
				}
				w := "[" + strings.Join(want, " ") + "]"
				if v.String() != w {
					return fmt.Errorf("point reply %s want %s", v.String(), w)
				}
			}
			return nil
		}
		return nil
	}
	return res(func(v rv) error {
		if !withfields {
			return checkMain(v)
		}
		if v.T != '*' || len(v.A) < 1 {
			return fmt.Errorf("WITHFIELDS reply is not an array: %s", clipStr(v.String(), 200))
		}
		if err := checkMain(v.A[0]); err != nil {
			return err
		}
		got := ""
		if len(v.A) > 1 {
			var err error
			got, err = fieldsOfReply(v.A[1])
			if err != nil {
				return err
			}
		}
		if got != wantFields {
			return fmt.Errorf("fields: got %s want %s", got, wantFields)
		}
		return nil
	}, false)
}

func (m *Model) applyScan(a []string) mResult {
	// SCAN key [LIMIT n] [IDS|COUNT]  (unfiltered)
	if len(a) < 1 {
		return mResult{undef: true}
	}
	out := "objects"
	limit := 100
	cursor := 0
	desc := false
	for i := 1; i < len(a); i++ {
		switch lower(a[i]) {
		case "cursor":
			if i+1 >= len(a) {
				return mResult{undef: true}
			}
			n, err := strconv.Atoi(a[i+1])
			if err != nil || n < 0 {
				return mResult{undef: true}
			}
			cursor = n
			i++
		case "asc":
			desc = false
		case "desc":
			desc = true
		case "limit":
			if i+1 >= len(a) {
				return mResult{undef: true}
			}
			n, err := strconv.Atoi(a[i+1])
			if err != nil || n < 1 {
				return mResult{undef: true}
			}
			limit = n
			i++
		case "ids":
			out = "ids"
		case "count":
			out = "count"
		case "objects":
			out = "objects"
		default:
			return mResult{undef: true}
		}
	}
	col := m.cols[a[0]]
	ids := sortedIDs(col)
	if out == "count" {
		return res(expInt(len(ids)), false)
	}
	// one page of the plain map's id order: skip `cursor` ids, return up to `limit`; the reply
	// carries cursor+limit when the page is full and 0 when it is not (documented paging)
	if desc {
		for i, j := 0, len(ids)-1; i < j; i, j = i+1, j-1 {
			ids[i], ids[j] = ids[j], ids[i]
		}
	}
	if cursor > len(ids) {
		cursor = len(ids)
	}
	ids = ids[cursor:]
	next := 0
	if len(ids) >= limit {
		ids = ids[:limit]
		next = cursor + limit
	}
	return res(func(v rv) error {
		if v.T != '*' || len(v.A) != 2 || v.A[1].T != '*' {
			return fmt.Errorf("scan reply shape: %s", clipStr(v.String(), 200))
		}
		if v.A[0].String() != fmt.Sprintf(":%d", next) {
			return fmt.Errorf("scan returned cursor %s, want %d (page of %d ids from offset %d)", v.A[0].String(), next, len(ids), cursor)
		}
		items := v.A[1].A
		if len(items) != len(ids) {
			return fmt.Errorf("scan returned %d items, want %d (%v)", len(items), len(ids), ids)
		}
		for i, it := range items {
			if out == "ids" {
				if it.S != ids[i] {
					return fmt.Errorf("scan ids[%d]=%q want %q", i, it.S, ids[i])
				}
				continue
			}
			if it.T != '*' || len(it.A) < 2 {
				return fmt.Errorf("scan item shape: %s", clipStr(it.String(), 200))
			}
			if it.A[0].S != ids[i] {
				return fmt.Errorf("scan item %d id %q want %q", i, it.A[0].S, ids[i])
			}
			o := col[ids[i]]
			if err := o.matches(it.A[1].S); err != nil {
				return fmt.Errorf("scan item %q: %v", ids[i], err)
			}
			got := ""
			if len(it.A) > 2 {
				var err error
				got, err = fieldsOfReply(it.A[2])
				if err != nil {
					return err
				}
			}
			want := ""
			if len(o.fields) > 0 {
				want = fieldsExpectData(o.fields)
			}
			if got != want {
				return fmt.Errorf("scan item %q fields: got %s want %s", ids[i], got, want)
			}
		}
		return nil
	}, false)
}

// --- JSON document commands (simple dotted paths of object keys) -----------

func jsonPathGet(doc interface{}, path string) (interface{}, bool) {
	cur := doc
	for _, p := range strings.Split(path, ".") {
		mm, ok := cur.(map[string]interface{})
		if !ok {
			return nil, false
		}
		cur, ok = mm[p]
		if !ok {
			return nil, false
		}
	}
	return cur, true
}

func jsonPathSet(doc interface{}, path string, val interface{}) (interface{}, bool) {
	parts := strings.Split(path, ".")
	root, ok := doc.(map[string]interface{})
	if !ok {
		if doc != nil {
			return nil, false
		}
		root = map[string]interface{}{}
	}
	cur := root
	for i, p := range parts {
		if i == len(parts)-1 {
			cur[p] = val
			break
		}
		nx, ok := cur[p]
		if !ok {
			n := map[string]interface{}{}
			cur[p] = n
			cur = n
			continue
		}
		nm, ok := nx.(map[string]interface{})
		if !ok {
			return nil, false
		}
		cur = nm
	}
	return root, true
}

func jsonPathDel(doc interface{}, path string) (interface{}, bool) {
	parts := strings.Split(path, ".")
	root, ok := doc.(map[string]interface{})
	if !ok {
		return doc, false
	}
	cur := root
	for i, p := range parts {
		if i == len(parts)-1 {
			if _, ok := cur[p]; !ok {
				return root, false
			}
			delete(cur, p)
			return root, true
		}
		nm, ok := cur[p].(map[string]interface{})
		if !ok {
			return root, false
		}
		cur = nm
	}
	return root, false
}

func (o *mObj) jsonDoc() (interface{}, bool) {
	src := o.json
	if src == "" {
		return nil, false
	}
	var v interface{}
	if err := json.Unmarshal([]byte(src), &v); err != nil {
		return nil, false
	}
	return v, true
}

func jsetValue(val string, mode string) (interface{}, bool) {
	if mode == "str" {
		return val, true
	}
	if mode == "raw" {
		var v interface{}
		if err := json.Unmarshal([]byte(val), &v); err != nil {
			return nil, false
		}
		return v, true
	}
	switch val {
	case "true":
		return true, true
	case "false":
		return false, true
	case "null":
		return nil, true
	}
	if f, err := strconv.ParseFloat(val, 64); err == nil {
		// generated numbers are plain JSON numbers
		return f, true
	}
	return val, true
}

func (m *Model) applyJget(a []string) mResult {
	if len(a) < 2 || len(a) > 3 {
		return mResult{undef: true}
	}
	o := m.get(a[0], a[1])
	if o == nil {
		return neg(expNil)
	}
	doc, ok := o.jsonDoc()
	if !ok {
		return mResult{undef: true}
	}
	if len(a) == 2 {
		want := o.json
		return res(func(v rv) error {
			c, ok := canonJSON(v.S)
			if v.T != '$' || !ok || c != want {
				return fmt.Errorf("jget doc: got %s want %s", clipStr(v.String(), 200), clipStr(want, 200))
			}
			return nil
		}, false)
	}
	val, ok := jsonPathGet(doc, a[2])
	if !ok {
		return res(expNil, false)
	}
	switch x := val.(type) {
	case string:
		return res(expExact(strconv.Quote(x)), false)
	case float64:
		return res(expExact(strconv.Quote(fnum(x))), false)
	case bool:
		return res(expExact(strconv.Quote(strconv.FormatBool(x))), false)
	case nil:
		return res(expExact(`""`), false)
	default:
		b, _ := json.Marshal(x)
		want := string(b)
		return res(func(v rv) error {
			c, ok := canonJSON(v.S)
			if v.T != '$' || !ok || c != want {
				return fmt.Errorf("jget sub-document: got %s want %s", clipStr(v.String(), 200), want)
			}
			return nil
		}, false)
	}
}

func (m *Model) applyJset(a []string) mResult {
	if len(a) != 4 && len(a) != 5 {
		return mResult{undef: true}
	}
	mode := ""
	if len(a) == 5 {
		mode = lower(a[4])
		if mode != "raw" && mode != "str" {
			return mResult{undef: true}
		}
	}
	key, id, path := a[0], a[1], a[2]
	val, ok := jsetValue(a[3], mode)
	if !ok {
		return mResult{undef: true}
	}
	old := m.get(key, id)
	var doc interface{}
	if old != nil {
		d, ok := old.jsonDoc()
		if !ok {
			return mResult{undef: true}
		}
		doc = d
	}
	nd, ok := jsonPathSet(doc, path, val)
	if !ok {
		return mResult{undef: true}
	}
	b, _ := json.Marshal(nd)
	o := &mObj{fields: map[string]string{}}
	if old != nil {
		for k, v := range old.fields {
			o.fields[k] = v
		}
	}
	if old != nil && old.spatial {
		if old.kind == "hash" {
			return mResult{undef: true}
		}
		o.kind, o.spatial, o.json = "object", true, string(b)
	} else {
		o.kind, o.json, o.str = "string", string(b), string(b)
	}
	m.put(key, id, o)
	return res(expOK, true)
}

func (m *Model) applyJdel(a []string) mResult {
	if len(a) != 3 {
		return mResult{undef: true}
	}
	key, id, path := a[0], a[1], a[2]
	if m.cols[key] == nil {
		return neg(expInt(0))
	}
	old := m.get(key, id)
	if old == nil {
		return neg(expInt(0))
	}
	doc, ok := old.jsonDoc()
	if !ok {
		return mResult{undef: true}
	}
	nd, changed := jsonPathDel(doc, path)
	if !changed {
		return neg(expInt(0))
	}
	b, _ := json.Marshal(nd)
	o := old.clone()
	o.hasDL, o.deadline = false, 0
	if old.spatial {
		if old.kind == "hash" {
			return mResult{undef: true}
		}
		o.kind, o.json = "object", string(b)
	} else {
		o.kind, o.json, o.str = "string", string(b), string(b)
	}
	m.put(key, id, o)
	if old.spatial {
		// JDEL on a geometry re-enters SET; the reply format of that case is
		// not documented: accept SET's +OK as well as :1.
		return res(func(v rv) error {
			if s := v.String(); s != "+OK" && s != ":1" {
				return fmt.Errorf("got %s want +OK or :1", s)
			}
			return nil
		}, true)
	}
	return res(expInt(1), true)
}

// --- hooks -------------------------------------------------------------------

func (m *Model) applySetHook(channel bool, a []string, now time.Duration) mResult {
	// SETHOOK name endpoints [META k v]* [EX s] NEARBY|WITHIN|INTERSECTS key ... FENCE ...
	// SETCHAN name [META k v]* [EX s] NEARBY|... key ... FENCE ...
	if len(a) < 3 {
		return mResult{undef: true}
	}
	h := &mHook{channel: channel, name: a[0]}
	i := 1
	if !channel {
		h.endpoints = strings.Split(a[1], ",")
		i = 2
	} else {
		h.endpoints = []string{"local://" + a[0]}
	}
	metas := map[string]string{}
	for i < len(a) {
		switch lower(a[i]) {
		case "meta":
			if i+2 >= len(a) {
				return mResult{undef: true}
			}
			metas[a[i+1]] = a[i+2]
			i += 3
			continue
		case "ex":
			if i+1 >= len(a) {
				return mResult{undef: true}
			}
			f, err := strconv.ParseFloat(a[i+1], 64)
			if err != nil {
				return mResult{undef: true}
			}
			h.hasDL = true
			h.deadline = now + time.Duration(f*float64(time.Second))
			i += 2
			continue
		}
		break
	}
	if i+1 >= len(a) {
		return mResult{undef: true}
	}
	switch lower(a[i]) {
	case "nearby", "within", "intersects":
	default:
		return mResult{undef: true}
	}
	h.args = append([]string(nil), a[i:]...)
	h.key = a[i+1]
	var names []string
	for k := range metas {
		names = append(names, k)
	}
	sort.Strings(names)
	for _, k := range names {
		h.metas = append(h.metas, [2]string{k, metas[k]})
	}
	prev := m.hooks[h.name]
	if prev != nil {
		if prev.channel != channel {
			return negE(("cannot share the same name"))
		}
		if hookEqual(prev, h) {
			// identical definition: nothing changes (deadline must be equal too,
			// which for EX hooks only happens at the same instant)
			return neg(expInt(0))
		}
	}
	m.hooks[h.name] = h
	return res(expInt(1), true)
}

func hookEqual(a, b *mHook) bool {
	if a.key != b.key || a.name != b.name || a.hasDL != b.hasDL || a.deadline != b.deadline ||
		strings.Join(a.endpoints, ",") != strings.Join(b.endpoints, ",") ||
		strings.Join(a.args, "\x00") != strings.Join(b.args, "\x00") || len(a.metas) != len(b.metas) {
		return false
	}
	for i := range a.metas {
		if a.metas[i] != b.metas[i] {
			return false
		}
	}
	return true
}

func (h *mHook) expectString() string {
	var ep, ar, me []string
	for _, e := range h.endpoints {
		ep = append(ep, strconv.Quote(e))
	}
	for _, x := range h.args {
		ar = append(ar, strconv.Quote(x))
	}
	for _, kv := range h.metas {
		me = append(me, strconv.Quote(kv[0]), strconv.Quote(kv[1]))
	}
	return fmt.Sprintf("[%q %q [%s] [%s] [%s]]", h.name, h.key, strings.Join(ep, " "),
		strings.Join(ar, " "), strings.Join(me, " "))
}

func (m *Model) hooksExpect(channel bool, pattern string) string {
	var names []string
	for n, h := range m.hooks {
		if h.channel == channel && globMatch(pattern, n) {
			names = append(names, n)
		}
	}
	sort.Strings(names)
	var parts []string
	for _, n := range names {
		parts = append(parts, m.hooks[n].expectString())
	}
	return "[" + strings.Join(parts, " ") + "]"
}

func normHooksReply(v rv) (string, error) {
	if v.T != '*' {
		return "", fmt.Errorf("hooks reply is not an array: %s", clipStr(v.String(), 200))
	}
	return v.String(), nil
}
