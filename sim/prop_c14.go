package server

// C14 - expiration is never early, always eventual, and visible as a delete.

import (
	"fmt"
	"math/rand"
	"strings"
	"time"
)

func init() { registerProp("C14", runC14) }

// expiryBound: how long after its deadline an object may still be served once
// faults have stopped and scheduling is fair (a bound of the property, not a
// copy of the sweeper's period).
const expiryBound = 1500 * time.Millisecond

// checkAllExpired: every object / hook whose deadline passed more than the
// bound ago must be gone from the model of the log (i.e. a DEL was logged).
func checkAllExpired(w *World, lm *LogModel, class string) {
	now := w.now()
	m := lm.cur()
	for _, k := range m.sortedKeys() {
		for _, id := range sortedIDs(m.cols[k]) {
			o := m.cols[k][id]
			if o.hasDL && o.deadline+expiryBound < now {
				w.violate(class+"/not-expired", "object %s/%s had its deadline at %v; at %v (fair scheduling, no faults) no DEL has been logged for it", k, id, o.deadline, now)
				return
			}
		}
	}
	for n, h := range m.hooks {
		if h.hasDL && h.deadline+expiryBound < now {
			w.violate(class+"/not-expired", "hook %s had its deadline at %v; at %v it is still registered", n, h.deadline, now)
			return
		}
	}
}

func runC14(w *World) {
	w.drawWeights()
	w.weights[akFault] = 0
	w.weights[akTick] = []int{2, 5, 10}[w.knob("wtick", 3)]
	w.cut = cutMode(w.knob("cut", 2))
	n := w.addNode("n1", "10.0.0.1", 9851)
	// healthy sinks for the webhook endpoints the programs register
	w.addWebhook("hook0.sim:80", nil)
	w.addWebhook("hook1.sim:80", nil)
	w.addWebhook("hook2.sim:80", nil)
	inst := n.start()
	if !inst.ready() {
		w.harnessErr("node did not start")
		return
	}
	hc := newHistChecker(w, inst, newModel(), "C14")
	hc.exact = true
	w.stepHooks = append(w.stepHooks, hc.stepHook, auditHook(w, func() *Inst { return n.inst }, "C14"))
	size := []int{15, 30, 60}[w.knob("size", 3)]
	if w.deep() && w.knob("deep", 3) == 0 {
		size = 150
	}
	// (not together with a log rewrite: a RENAME while the log is being rewritten is the known
	// finding C09-rename-during-rewrite, which C09 attributes and this check cannot)
	withRewrite := w.knob("rewrite", 4) == 1
	twoKeys := w.knob("twokeys", 2) == 1 && !withRewrite
	prog := w.program("p1", func(r *rand.Rand) []Cmd {
		g := defaultGenCfg(1)
		g.keys = []string{"k1"}
		if twoKeys {
			// a second collection: RENAME / RENAMENX then move objects with their deadlines
			g.keys = []string{"k1", "k2"}
		}
		g.freeIDs = []string{"a", "b", "c"}
		g.exVals = []string{"0.1", "0.2", "0.3", "0.5", "0.9", "1", "1.5", "2", "3", "5"}
		g.wRead, g.wWrite, g.wMulti, g.wJSON, g.wExpire = 8, 8, 1, 2, 10
		if twoKeys {
			g.wMulti = 3
		}
		g.noFlush = true
		var p []Cmd
		for i := 0; i < size; i++ {
			switch x := r.Intn(24); {
			case x == 0:
				p = append(p, Cmd{Args: []string{"WITHIN", "k1", "IDS", "BOUNDS", "-90", "-180", "90", "180"}})
			case x == 1:
				p = append(p, Cmd{Args: []string{"SCAN", "k1", "COUNT"}})
			case x == 2:
				p = append(p, Cmd{Args: []string{"TTL", "k1", pick(r, g.freeIDs)}})
			case x == 3:
				h := hookCmd(r, g)
				p = append(p, h)
			case x == 4:
				p = append(p, Cmd{Args: []string{"SETCHAN", fmt.Sprintf("ch%d", r.Intn(2)), "EX", pick(r, g.exVals), "NEARBY", "k1", "FENCE", "POINT", "10", "10", "5000"}})
			case x < 9:
				// overwrite / re-expire patterns that must not leave a stale timer
				id := pick(r, g.freeIDs)
				key := pick(r, g.keys)
				switch r.Intn(4) {
				case 0:
					p = append(p, Cmd{Args: []string{"SET", key, id, "EX", pick(r, g.exVals), "POINT", g.lat(r), g.lon(r)}})
				case 1:
					p = append(p, Cmd{Args: []string{"SET", key, id, "POINT", g.lat(r), g.lon(r)}})
				case 2:
					p = append(p, Cmd{Args: []string{"EXPIRE", key, id, pick(r, g.exVals)}})
				default:
					p = append(p, Cmd{Args: []string{"PERSIST", key, id}})
				}
			default:
				p = append(p, g.cmd(r))
			}
		}
		return p
	})
	if withRewrite {
		// two neighbours in id order, the first with a (distant) deadline and the second without,
		// that nothing else in the program touches by name: what the rewritten log says about
		// each of them is looked at right after the swap
		prog = append([]Cmd{
			{Args: []string{"SET", "k1", "t1", "EX", "100", "POINT", "11", "11"}},
			{Args: []string{"SET", "k1", "t2", "POINT", "12", "12"}},
			{Args: []string{"SET", "k1", "t3", "EX", "200", "STRING", "with a deadline"}},
			{Args: []string{"SET", "k1", "t4", "FIELD", "f1", "7", "STRING", "without"}},
		}, prog...)
	}
	a := w.addActor(n, "127.0.0.1:50001", prog)
	a.onReply = func(op *Op) { hc.onReply(op, a.end.c.name) }
	// a third of the runs have a follower: expirations reach it as logged DELs
	var F *Node
	if w.knob("follower", 3) == 0 {
		F = w.addNode("n2", "10.0.0.2", 9851)
		F.config["follow_host"] = "10.0.0.1"
		F.config["follow_port"] = 9851
		F.start()
	}
	// a live fence over the whole collection observes every delete
	var fence *Actor
	if w.knob("fence", 2) == 1 {
		fence = w.addActor(n, "127.0.0.1:50002", []Cmd{{Args: []string{"NEARBY", "k1", "FENCE", "POINT", "0", "0", "30000000"}, GoLive: true}})
		fence.weight = 50
	}
	// a quarter of the runs rewrite the log while deadlines come and go, and end with a crash and
	// a restart: restarts observe expirations and deadlines exactly as the live server had them -
	// what had a deadline still has one, what had none has none
	if withRewrite {
		sh := w.addActor(n, "127.0.0.1:50090", []Cmd{{Args: []string{"AOFSHRINK"}}})
		sh.weight = 2
		sh.onReply = func(op *Op) {}
	}
	if withRewrite {
		// run until the rewrite has replaced the log, then crash and restart at once: whatever the
		// rewritten file says about deadlines is observed before later writes can paper over it
		first := inst.srv.aof
		swapped := func() bool {
			return n.inst == inst && inst.srv.aof != first && !inst.srv.shrinking && inst.atPoint == ""
		}
		w.RunChaos(size*60, func() bool { return a.done() || swapped() })
		if !w.failed() && swapped() {
			a.paused = true
			w.Settle()
			rc := &restartCtx{w: w, n: n, class: "C14", acked: map[string]bool{}, hc: hc}
			if rc.stopAndRestart(false) {
				w.stat("probe.restart_right_after_rewrite_with_deadlines", 1)
				w.nontriv = true
			}
			w.stat("c14.ops_checked", hc.nChecked)
			return
		}
	}
	w.RunChaos(size*60, a.done)
	if !w.failed() && !a.done() {
		w.Drain(60*time.Second, a.done)
	}
	// drain: no faults, fair scheduling; wait past the latest pending deadline
	if !w.failed() {
		var latest time.Duration
		hc.lm.poll()
		m := hc.lm.cur()
		for _, col := range m.cols {
			for _, o := range col {
				if o.hasDL && o.deadline > latest && o.deadline < w.now()+10*time.Second {
					latest = o.deadline
				}
			}
		}
		for _, h := range m.hooks {
			if h.hasDL && h.deadline > latest && h.deadline < w.now()+10*time.Second {
				latest = h.deadline
			}
		}
		wait := latest + expiryBound + 200*time.Millisecond - w.now()
		if wait < expiryBound {
			wait = expiryBound
		}
		w.Sleep(wait)
		hc.lm.poll()
		checkAllExpired(w, hc.lm, "C14")
	}
	hc.finish(nil)
	if !w.failed() {
		apiDumpCheck(w, n, hc.lm, "C14")
	}
	if !w.failed() && F != nil {
		// the follower must have lost the expired objects too (it applies the leader's DELs;
		// its own sweeper may have been faster, never slower than the bound)
		same := func() bool {
			fi := F.inst
			return fi.ready() && fi.srv.caughtUp() && fi.lock.writer == nil && n.inst.lock.writer == nil &&
				fi.dump().text(true) == n.inst.dump().text(true)
		}
		if !w.Drain(10*time.Second, same) && !w.failed() {
			if fi := F.inst; fi.ready() && fi.srv.caughtUp() {
				w.violate("C14/follower", "after every deadline has passed the follower still differs from the leader: %s", firstDiff(n.inst.dump().text(true), fi.dump().text(true)))
			} else {
				w.stat("probe.follower_never_reported_caught_up", 1)
			}
		} else {
			w.stat("probe.follower_agrees_after_expiry", 1)
		}
	}
	// in half of those runs the follower is then restarted (it boots as a follower), promoted with
	// FOLLOW no one and written to: as a leader it has to expire what it holds like any other
	if !w.failed() && F != nil && w.knob("promote", 2) == 1 {
		F.crash()
		fi := F.start()
		if !fi.ready() {
			w.harnessErr("follower did not restart")
			return
		}
		w.Drain(10*time.Second, func() bool { return fi.srv.caughtUp() && fi.lock.writer == nil })
		pr := w.addActor(F, "127.0.0.1:50077", []Cmd{
			{Args: []string{"FOLLOW", "no", "one"}},
			{Args: []string{"SET", "k9", "x", "EX", "0.5", "POINT", "1", "1"}},
			{Args: []string{"SET", "k9", "y", "POINT", "2", "2"}},
			{Args: []string{"EXPIRE", "k9", "y", "0.3"}},
			{Args: []string{"SETCHAN", "chp", "EX", "0.4", "NEARBY", "k9", "FENCE", "POINT", "1", "1", "1000"}},
		})
		w.Drain(20*time.Second, pr.done)
		okAll := pr.done()
		for i, op := range pr.ops {
			if r := op.Reply.String(); op.Return < 0 || (i < 3 && r != "+OK") || (i >= 3 && r != ":1") {
				okAll = false
			}
		}
		if !okAll {
			if !w.failed() {
				w.stat("probe.promotion_did_not_complete", 1)
			}
		} else {
			w.Sleep(500*time.Millisecond + expiryBound + 300*time.Millisecond)
			q := w.addActor(F, "127.0.0.1:50078", []Cmd{
				{Args: []string{"EXISTS", "k9", "x"}},
				{Args: []string{"EXISTS", "k9", "y"}},
				{Args: []string{"CHANS", "chp"}},
			})
			w.Drain(10*time.Second, q.done)
			if q.done() && !w.failed() {
				for i, op := range q.ops {
					gone := op.Reply.String() == ":0" || (op.Reply.isErr() && strings.Contains(op.Reply.String(), "not found"))
					if i == 2 {
						gone = op.Reply.T == '*' && len(op.Reply.A) == 0
					}
					if !gone {
						w.violate("C14/promoted", "a server restarted as a follower and promoted with FOLLOW no one: %v past its deadline [%s] still answers %s",
							expiryBound+300*time.Millisecond, op.Cmd.String(), clipStr(op.Reply.String(), 120))
						break
					}
				}
				if !w.failed() {
					w.stat("probe.promoted_follower_expires", 1)
				}
			}
		}
	}
	// every logged expiry of a geometry must have reached the live fence as 'del'
	nexp := 0
	if !w.failed() {
		w.Sleep(300 * time.Millisecond)
		for i := range hc.lm.entries {
			e := &hc.lm.entries[i]
			if e.owner != "expire" || lower(e.args[0]) != "del" {
				continue
			}
			nexp++
			if e.args[1] != "k1" {
				continue // the fence watches k1
			}
			if fence == nil || fence.ops[0].Return < 0 || fence.ops[0].Return > e.step {
				continue
			}
			before := hc.lm.states[i].get(e.args[1], e.args[2])
			if before == nil || !before.spatial {
				continue
			}
			found := false
			for _, it := range fence.stream {
				if it.Step >= e.step && strings.Contains(it.V.S, `"command":"del"`) && strings.Contains(it.V.S, `"id":"`+e.args[2]+`"`) {
					found = true
					break
				}
			}
			if !found {
				w.violate("C14/fence", "expiry of %s/%s was logged at step %d but the live fence never received a 'del' for it", e.args[1], e.args[2], e.step)
				break
			}
			w.stat("probe.expiry_seen_by_fence", 1)
		}
	}
	w.stat("c14.ops_checked", hc.nChecked)
	if withRewrite && !w.failed() {
		w.Drain(30*time.Second, func() bool { return !n.inst.srv.shrinking && n.inst.atPoint == "" })
		rc := &restartCtx{w: w, n: n, class: "C14", acked: map[string]bool{}, hc: hc}
		if rc.stopAndRestart(false) {
			w.stat("probe.restart_after_rewrite_with_deadlines", 1)
		}
	}
	w.nontriv = nexp >= 1 && hc.nChecked >= 8
	w.sample = map[string]interface{}{"seed": w.seed, "program_len": size, "expired_by_sweeper": nexp, "fence_receiver": fence != nil,
		"first_cmds": func() []string {
			var s []string
			for i, c := range prog {
				if i < 10 {
					s = append(s, clipStr(c.String(), 80))
				}
			}
			return s
		}()}
}
