package server

// C07 - concurrent clients see one serial order, and it is the log's.

import (
	"fmt"
	"math"
	"math/rand"
	"strings"
	"time"

	"github.com/anishathalye/porcupine"
)

func init() { registerProp("C07", runC07) }

func runC07(w *World) {
	w.drawWeights()
	w.drawNet(w.knob)
	w.weights[akFault] = 0
	w.cut = cutMode(w.knob("cut", 2))
	n := w.addNode("n1", "10.0.0.1", 9851)
	inst := n.start()
	if !inst.ready() {
		w.harnessErr("node did not start")
		return
	}
	hc := newHistChecker(w, inst, newModel(), "C07")
	hc.exact = false
	w.stepHooks = append(w.stepHooks, hc.stepHook, lockDiscipline(w, inst, "C07"), auditHook(w, func() *Inst { return n.inst }, "C07"))

	nc := 2 + w.knob("clients", 3)
	total := []int{10, 20, 30, 40}[w.knob("total", 4)]
	if w.deep() && w.knob("deep", 3) == 0 {
		nc, total = 5, 70
	}
	per := (total + nc - 1) / nc
	style := w.knob("style", 3)
	nodl := w.knob("nodeadlines", 2) == 1
	burst := w.knob("burst", 6) == 1
	// one run in five starts with a collection of 40 objects that the clients then delete by
	// pattern, count, and write into: a command that touches many objects is still one step
	bulk := w.knob("bulk", 5) == 1
	if bulk {
		var lp []Cmd
		for j := 0; j < 40; j++ {
			lp = append(lp, Cmd{Args: []string{"SET", "k1", fmt.Sprintf("m%02d", j), "POINT", fmt.Sprint(10 + j), "20"}, Pipe: true})
		}
		loader := w.addActor(n, "127.0.0.1:50099", lp)
		loader.onReply = func(op *Op) { hc.onReply(op, loader.end.c.name) }
		if !w.Drain(60*time.Second, loader.done) {
			if !w.failed() {
				w.harnessErr("loader did not finish")
			}
			return
		}
	}
	var clients []*Actor
	for i := 0; i < nc; i++ {
		i := i
		prog := w.program(fmt.Sprintf("p%d", i+1), func(r *rand.Rand) []Cmd {
			g := defaultGenCfg(i + 1)
			g.keys = []string{"k1", "k2"}
			g.freeIDs = []string{"a", "b"}
			g.exVals = []string{"0.3", "1", "100"}
			g.wBad = 4
			if nodl {
				g.exVals = nil
				g.wExpire = 0
			}
			switch style {
			case 1:
				g.wMulti = 10
			case 2:
				g.wRead = 20
			}
			var p []Cmd
			for j := 0; j < per; j++ {
				if bulk && r.Intn(5) == 0 {
					m := fmt.Sprintf("m%02d", r.Intn(40))
					switch r.Intn(6) {
					case 0:
						p = append(p, Cmd{Args: []string{"PDEL", "k1", "m*"}})
					case 1:
						p = append(p, Cmd{Args: []string{"PDEL", "k1", []string{"m0*", "m1*", "m2*", "m*"}[r.Intn(4)]}})
					case 2, 3:
						p = append(p, Cmd{Args: []string{"SET", "k1", m, "POINT", g.lat(r), g.lon(r)}})
					case 4:
						p = append(p, Cmd{Args: []string{"SCAN", "k1", "COUNT"}})
					default:
						p = append(p, Cmd{Args: []string{"SCAN", "k1", "LIMIT", "10000"}})
					}
				} else if r.Intn(12) == 0 {
					p = appendScript(p, r, scriptCmd(r, g))
				} else {
					p = append(p, g.cmd(r))
				}
			}
			if burst {
				// a stream of moves on the fenced collections (too long for the porcupine second
				// opinion, which such runs skip; the log-order oracles apply as everywhere)
				for j := 0; j < 25; j++ {
					p = append(p, Cmd{Args: []string{"SET", g.keys[r.Intn(2)], pick(r, g.freeIDs), "POINT", g.lat(r), g.lon(r)}})
				}
			}
			return p
		})
		a := w.addActor(n, simAddr(fmt.Sprintf("127.0.0.1:%d", 50001+i)), prog)
		a.onReply = func(op *Op) { hc.onReply(op, a.end.c.name) }
		clients = append(clients, a)
	}
	// live fences evaluate under the shared lock while writers run
	nl := w.knob("lives", 3)
	type liveFence struct {
		a   *Actor
		key string
	}
	var lives []liveFence
	for i := 0; i < nl; i++ {
		key := []string{"k1", "k2"}[i%2]
		prog := []Cmd{{Args: []string{"NEARBY", key, "FENCE", "POINT", "10", "10", "20000000"}, GoLive: true}}
		lives = append(lives, liveFence{w.addActor(n, simAddr(fmt.Sprintf("127.0.0.1:%d", 51001+i)), prog), key})
	}
	allDone := func() bool {
		for _, a := range clients {
			if !a.done() {
				return false
			}
		}
		return true
	}
	// in a quarter of the runs the live fences' own lock requests are held back until the
	// clients are half way through: the fences then find a long queue of events and work it
	// off while further writes arrive
	if nl > 0 && (w.knob("holdlive", 4) == 1 || burst) {
		inst.lock.holdRole = "golive"
		w.stepHooks = append(w.stepHooks, func() {
			if inst.lock.holdRole != "golive" {
				return
			}
			done, all := 0, 0
			for _, a := range clients {
				done += a.next
				all += len(a.prog)
			}
			if done*2 >= all {
				inst.lock.holdRole = ""
				w.stat("c07.live_fences_released_with_backlog", 1)
			}
		})
	}
	if burst {
		total += 25 * nc
	}
	w.RunChaos(total*120, allDone)
	if !w.failed() && !allDone() {
		w.Drain(30*time.Second, allDone)
	}
	w.Sleep(300 * time.Millisecond)
	if !w.failed() && !allDone() {
		w.harnessErr("clients did not finish")
	}
	hc.finish(nil)
	if !w.failed() {
		lockPrimCheck(w, "C07")
	}
	// a live fence connection is a client too: the 'set' notifications it received are, in the
	// order received, a subsequence of the SETs of its collection in the log - each log entry
	// reported at most once, none out of order
	if !w.failed() {
		hc.lm.poll()
		for li, lf := range lives {
			p := 0
			nset := 0
			reported := map[int]int{} // log entry -> notifications matched to it (one write yields at most two: enter+inside, exit+outside, cross+outside)
			for _, it := range lf.a.stream {
				body := it.V.S
				if it.V.T != '$' && it.V.T != '+' || !strings.HasPrefix(body, "{") {
					continue
				}
				m, _, err := parseFenceMsg(body)
				if err != nil || m.command != "set" {
					continue
				}
				nset++
				found := -1
				for k := p; k < len(hc.lm.entries); k++ {
					e := &hc.lm.entries[k]
					// (JSET / JDEL on a geometry re-store the object and are reported as 'set' too)
					if c := lower(e.args[0]); (c != "set" && c != "jset" && c != "jdel") || len(e.args) < 3 || e.args[1] != lf.key || e.args[2] != m.id || !e.res.changed {
						continue
					}
					if lat, lon, ok := pointOf(hc.lm.states[k+1].get(lf.key, m.id)); ok && (math.Abs(lat-m.lat) > 1e-9 || math.Abs(lon-m.lon) > 1e-9) {
						continue
					}
					if reported[k] >= 2 {
						continue
					}
					found = k
					break
				}
				if found < 0 {
					w.violate("C07/live-order", "live fence %d on %s: its notification #%d (set %s at %v,%v) does not follow the log order: no SET of that object at or after log entry %d (a notification repeated, reordered or never logged)",
						li, lf.key, nset, m.id, m.lat, m.lon, p)
					break
				}
				reported[found]++
				p = found
			}
			w.stat("c07.live_fence_sets_ordered", nset)
			if w.failed() {
				break
			}
		}
	}
	// overlapping windows make a run non-trivial
	var ops []*Op
	for _, a := range clients {
		ops = append(ops, a.ops...)
	}
	overlap := 0
	for i, x := range ops {
		for _, y := range ops[i+1:] {
			if x.Client != y.Client && x.Return >= 0 && y.Return >= 0 && x.Invoke < y.Return && y.Invoke < x.Return {
				overlap++
			}
		}
	}
	w.stat("c07.overlapping_pairs", overlap)
	w.stat("c07.ops_checked", hc.nChecked)
	w.stat("c07.ops_with_wide_window", hc.nWindows)
	w.nontriv = overlap >= 2 && hc.nWindows >= 1
	if !w.failed() && len(ops) <= 40 && !bulk { // (the second opinion starts from an empty dataset)
		porcupineCheck(w, ops, "C07")
	}
	var sm []string
	for i, op := range ops {
		if i < 10 {
			sm = append(sm, fmt.Sprintf("a%02d [%d,%d] %s -> %s", op.Client, op.Invoke, op.Return, clipStr(op.Cmd.String(), 60), clipStr(op.Reply.String(), 30)))
		}
	}
	w.sample = map[string]interface{}{"seed": w.seed, "clients": nc, "live_fences": nl, "overlapping_pairs": overlap, "history_head": sm}
}

// porcupineCheck is a second opinion: linearizability of the recorded history
// against the reference model WITHOUT the log as a witness.
func porcupineCheck(w *World, ops []*Op, class string) {
	type in struct{ op *Op }
	model := porcupine.Model{
		Init: func() interface{} { return newModel() },
		Step: func(state, input, output interface{}) (bool, interface{}) {
			m := state.(*Model).clone()
			op := input.(*Op)
			if len(op.Cmd.Inner) > 0 {
				inner := op.Cmd.Inner
				if op.Reply.isErr() {
					// a script that failed half-way: the writes it did make
					inner = inner[:op.Applied]
				}
				for _, c := range inner {
					m.apply(c, op.InvokeT)
				}
				return true, m
			}
			// deadlines make replies depend on time: evaluate at both window ends
			for _, t := range []time.Duration{op.InvokeT, op.ReturnT} {
				mm := state.(*Model).clone()
				r := mm.apply(op.Cmd.Args, t)
				if r.undef {
					return true, mm
				}
				if r.exp(op.Reply) == nil {
					return true, mm
				}
			}
			return false, m
		},
		Equal: func(a, b interface{}) bool { return false },
	}
	var pops []porcupine.Operation
	hasDL := false
	for _, op := range ops {
		if op.Return < 0 {
			continue
		}
		for _, a := range op.Cmd.Args {
			if a == "EX" || a == "EXPIRE" {
				hasDL = true
			}
		}
		for _, in := range op.Cmd.Inner {
			for _, a := range in {
				if a == "EX" || a == "EXPIRE" {
					hasDL = true
				}
			}
		}
		if (op.name() == "evalna" || op.name() == "evalnasha") && len(op.Cmd.Inner) > 1 {
			// EVALNA is not atomic: each of its calls is its own operation
			for i, in := range op.Cmd.Inner {
				sub := &Op{Client: op.Client, Cmd: Cmd{Args: op.Cmd.Args, Inner: [][]string{in}}, Invoke: op.Invoke, Return: op.Return,
					InvokeT: op.InvokeT, ReturnT: op.ReturnT, Reply: op.Reply}
				if i < op.Applied {
					sub.Applied = 1
				}
				pops = append(pops, porcupine.Operation{ClientId: 100 + op.Client*10 + i, Input: sub, Call: int64(op.Invoke)*2 + 1, Output: op.Reply, Return: int64(op.Return) * 2})
			}
			continue
		}
		pops = append(pops, porcupine.Operation{ClientId: op.Client, Input: op, Call: int64(op.Invoke)*2 + 1, Output: op.Reply, Return: int64(op.Return) * 2})
	}
	if hasDL {
		// sweeper deletions are not client operations: porcupine cannot see them
		w.stat("c07.porcupine_skipped_deadlines", 1)
		return
	}
	// porcupine's timeout needs a real clock: run it after the bubble has ended
	w.post = append(w.post, func() {
		res := porcupine.CheckOperationsTimeout(model, pops, 3*time.Second)
		switch res {
		case porcupine.Illegal:
			w.violate(class+"/porcupine", "history of %d operations is not linearizable against the reference model", len(pops))
		case porcupine.Unknown:
			w.stat("c07.porcupine_unknown", 1)
		default:
			w.stat("c07.porcupine_ok", 1)
		}
	})
}
