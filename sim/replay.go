package server

import "testing"

// minimise shrinks a failing replay file while the same violation class persists.
func minimise(t *testing.T, rec *ReplayFile, class string) *ReplayFile {
	return nil
}
