package server

// Replay-file minimisation: shrink programs and the choice vector while the
// same violation class persists.

import (
	"sort"
	"testing"
	"time"
)

func cloneReplay(r *ReplayFile) *ReplayFile {
	c := *r
	c.Knobs = map[string]int{}
	for k, v := range r.Knobs {
		c.Knobs[k] = v
	}
	c.Programs = map[string][]Cmd{}
	for k, p := range r.Programs {
		c.Programs[k] = append([]Cmd(nil), p...)
	}
	c.Choices = append([]uint32(nil), r.Choices...)
	c.Trace = nil
	return &c
}

type minimiser struct {
	t      *testing.T
	class  string
	execs  int
	budget int
	until  time.Time
	best   *ReplayFile
	bestR  *RunResult
}

// try executes cand (first with its recorded choices, then with a few fresh
// schedule seeds) and returns the failing replay (with the executed choice
// vector) or nil.
func (m *minimiser) try(cand *ReplayFile, fresh int) *ReplayFile {
	if m.execs >= m.budget || time.Now().After(m.until) {
		return nil
	}
	run := func(c *ReplayFile) *ReplayFile {
		m.execs++
		res := runOnce(m.t, c.Property, c.Tier, c.Seed, c)
		if res.HarnessErr != "" || res.Class != m.class {
			return nil
		}
		out := cloneReplay(c)
		out.Choices = res.rec.Choices
		out.ChoiceSeed = 0
		out.Class, out.Violation = res.Class, res.Msg
		out.Trace = tailLog(res.log, 120)
		m.bestR = res
		return out
	}
	if r := run(cand); r != nil {
		return r
	}
	for i := 1; i <= fresh && m.execs < m.budget; i++ {
		c := cloneReplay(cand)
		c.Choices = nil
		c.ChoiceSeed = int64(i)*7919 + cand.Seed
		if r := run(c); r != nil {
			return r
		}
	}
	return nil
}

func progSize(r *ReplayFile) int {
	n := 0
	for _, p := range r.Programs {
		n += len(p)
	}
	return n
}

func minimise(t *testing.T, rec *ReplayFile, class string) *ReplayFile {
	m := &minimiser{t: t, class: class, budget: 400, until: time.Now().Add(90 * time.Second)}
	cur := m.try(cloneReplay(rec), 0)
	if cur == nil {
		return nil // does not reproduce from its own replay file: leave the raw file
	}
	names := make([]string, 0, len(cur.Programs))
	for n := range cur.Programs {
		names = append(names, n)
	}
	sort.Strings(names)
	// 1. drop whole programs, then chunks of commands (delta debugging)
	for _, n := range names {
		if len(cur.Programs[n]) == 0 {
			continue
		}
		c := cloneReplay(cur)
		c.Programs[n] = []Cmd{}
		if r := m.try(c, 3); r != nil {
			cur = r
		}
	}
	for _, n := range names {
		chunk := (len(cur.Programs[n]) + 1) / 2
		for chunk >= 1 {
			changed := false
			for i := len(cur.Programs[n]) - chunk; i >= 0; i -= chunk {
				p := cur.Programs[n]
				if i+chunk > len(p) {
					continue
				}
				c := cloneReplay(cur)
				c.Programs[n] = append(append([]Cmd(nil), p[:i]...), p[i+chunk:]...)
				if r := m.try(c, 2); r != nil {
					cur = r
					changed = true
				}
				if m.execs >= m.budget || time.Now().After(m.until) {
					break
				}
			}
			if !changed || chunk == 1 {
				if chunk == 1 {
					break
				}
				chunk /= 2
			}
			if m.execs >= m.budget || time.Now().After(m.until) {
				break
			}
		}
	}
	// 2. simplify the schedule: truncate, then zero blocks of the choice vector
	for cut := len(cur.Choices) / 2; cut >= 8; cut /= 2 {
		if len(cur.Choices) <= cut {
			continue
		}
		c := cloneReplay(cur)
		c.Choices = c.Choices[:len(c.Choices)-cut]
		if r := m.try(c, 0); r != nil {
			cur = r
		}
	}
	for blk := len(cur.Choices) / 4; blk >= 4; blk /= 2 {
		for i := 0; i+blk <= len(cur.Choices); i += blk {
			c := cloneReplay(cur)
			z := true
			for j := i; j < i+blk; j++ {
				if c.Choices[j] != 0 {
					z = false
				}
				c.Choices[j] = 0
			}
			if z {
				continue
			}
			if r := m.try(c, 0); r != nil {
				cur = r
			}
			if m.execs >= m.budget || time.Now().After(m.until) {
				break
			}
		}
	}
	cur.MinimisedFrom = progSize(rec)
	cur.Executions = m.execs
	return cur
}
