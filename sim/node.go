package server

// Simulated nodes: one Node is a logical tile38 server (name, address, data
// directory); one Inst is one run of Serve() on it.

import (
	"encoding/json"
	"fmt"
	"io"
	"net"
	"os"
	"path/filepath"
	"sync"
	"testing/synctest"
	"time"
)

type Node struct {
	sim    *Sim
	name   string
	ip     string
	addr   simAddr
	dir    string // current data directory
	gen    int
	inst   *Inst
	config map[string]interface{} // written to dir/config before first start
	opts   Options                // template
	insts  []*Inst
	// park the node's log streams between end-of-file and their wait for more (hook liveaof.eof)
	parkStreamEOF bool
}

type grantEvent struct {
	step int
	role string
	conn string
	mode lockMode
}

type Inst struct {
	node     *Node
	gen      int
	srv      *Server
	lock     *simLock
	shutdown chan bool
	done     chan struct{}
	serveErr error
	dead     bool // crashed or stopped: zombie
	stopped  bool // Serve returned
	lis      *simListener
	atPoint  string

	// monitors
	grants     []grantEvent
	wTouched   bool
	lastDigest uint64
	haveDigest bool
	noDigest   bool          // disable the lock-discipline digest (e.g. during boot)
	aofTrack   []aofSizeMark // (step, aofsz) whenever it changed
	onGrantFn  func(r *lockReq)
	onUnlockFn func(r *lockReq)

	// fault injection at the hooks of the rewrite and flush paths
	failAt      map[string]int // named I/O operation -> how many of the next calls fail
	flushes     int            // AOF buffer writes so far
	parkAtFlush int            // park the flushing goroutine at this flush (1-based), 0 = never
	// disk full: from the diskFullAt-th buffer write on, the volume takes diskFullKeep/4 of that
	// buffer and nothing more (sim/diskfull.go)
	diskFullAt   int
	diskFullKeep int
	diskFull     bool
}

type aofSizeMark struct {
	step int
	sz   int
	t    time.Duration
}

var (
	instByDir = map[string]*Inst{}
)

func installServerHooks() {
	verifNewLockHook = func(opts *Options) rwlocker {
		s := curSim
		if s == nil {
			return nil
		}
		s.mu.Lock()
		defer s.mu.Unlock()
		inst := instByDir[opts.Dir]
		if inst == nil {
			return nil
		}
		return inst.lock
	}
	verifWrapListenerHook = func(srv *Server, ln net.Listener) net.Listener {
		s := curSim
		if s == nil {
			return ln
		}
		ln.Close()
		s.mu.Lock()
		defer s.mu.Unlock()
		inst := instByDir[srv.opts.Dir]
		if inst == nil {
			panic("verif: listener for unknown instance")
		}
		inst.srv = srv
		l := &simListener{sim: s, inst: inst, addr: inst.node.addr}
		l.cond = sync.NewCond(&s.mu)
		inst.lis = l
		if !inst.dead {
			s.addrs[string(inst.node.addr)] = l
		} else {
			l.closed = true
		}
		return l
	}
	verifPointHook = func(srv *Server, name string) {
		l, ok := srv.mu.(*simLock)
		if !ok {
			return
		}
		if name == "aof.flush" {
			// every buffer write passes here; it becomes a decision point only in runs that
			// aim a crash at one particular write (the torn-write fault)
			l.inst.flushes++
			if l.inst.dead || l.inst.parkAtFlush != l.inst.flushes {
				return
			}
		}
		if name == "liveaof.eof" && (l.inst.dead || !l.inst.node.parkStreamEOF) {
			// between a log stream's end-of-file and its wait for more: a decision point only in
			// runs that ask for it (a knob; recorded runs without it keep their schedules)
			return
		}
		l.point(name)
	}
	verifFaultHook = func(srv *Server, name string) error {
		l, ok := srv.mu.(*simLock)
		if !ok || l.inst.dead || l.inst.failAt[name] <= 0 {
			return nil
		}
		l.inst.failAt[name]--
		l.sim.stat("fault.io_error."+name, 1)
		l.sim.logf("IOERR node %s %s", l.inst.node.name, name)
		return fmt.Errorf("simulated I/O error at %s: no space left on device", name)
	}
	installNetHooks()
}

func (s *Sim) addNode(name, ip string, port int) *Node {
	n := &Node{sim: s, name: name, ip: ip, addr: simAddr(fmt.Sprintf("%s:%d", ip, port))}
	n.config = map[string]interface{}{"server_id": "id" + name + "0000000000000000000000000000"}
	n.opts = Options{Host: "", Port: 0, AppendOnly: true, ProtectedMode: "no"}
	s.nodes[name] = n
	s.nodeSeq = append(s.nodeSeq, n)
	return n
}

func (n *Node) lockActions() []action {
	if n.inst == nil || n.inst.dead {
		return nil
	}
	return n.inst.lock.actionsLocked()
}

func (n *Node) freshDir() string {
	n.gen++
	d := filepath.Join(n.sim.baseDir, fmt.Sprintf("%s.%d", n.name, n.gen))
	if err := os.MkdirAll(d, 0700); err != nil {
		panic(err)
	}
	return d
}

// start boots a new instance on the node's current directory and returns when
// the instance is quiescent (loaded, listening, background tasks parked).
func (n *Node) start() *Inst {
	s := n.sim
	if n.inst != nil && !n.inst.dead {
		panic("verif: node already running")
	}
	if n.dir == "" {
		n.dir = n.freshDir()
		b, _ := json.Marshal(n.config)
		if err := os.WriteFile(filepath.Join(n.dir, "config"), b, 0600); err != nil {
			panic(err)
		}
	}
	inst := &Inst{node: n, gen: n.gen, shutdown: make(chan bool, 1), done: make(chan struct{})}
	inst.lock = &simLock{sim: s, inst: inst, held: map[uint64]*lockReq{}}
	opts := n.opts
	opts.Dir = n.dir
	opts.Shutdown = inst.shutdown
	s.mu.Lock()
	instByDir[n.dir] = inst
	s.mu.Unlock()
	n.inst = inst
	n.insts = append(n.insts, inst)
	inst.noDigest = true
	go func() {
		s.registerGoroutine(inst, nil)
		err := Serve(opts)
		s.mu.Lock()
		inst.serveErr = err
		inst.stopped = true
		s.mu.Unlock()
		close(inst.done)
	}()
	synctest.Wait()
	if inst.stopped || inst.srv == nil || !inst.srv.loadedAndReady.Load() {
		// Either the boot failed - Serve has returned already, or is on its way out (its deferred
		// shutdown steps need virtual time to pass) - or it needs the lock. Which of the first
		// two it is after one Wait depends on how far the boot's goroutines got, which is not
		// under the scheduler's control: both take the same quiet region (fixed cost in steps
		// and time), in which a failing boot gets the time to return so that its error is known.
		s.quiet(400, 3*time.Second, func() {
			if !inst.stopped {
				s.Drain(2500*time.Millisecond, func() bool { return inst.stopped || inst.ready() })
			}
		})
		if inst.stopped {
			s.logf("node %s failed to start: %v", n.name, inst.serveErr)
			return inst
		}
		s.logf("node %s booting (not ready yet)", n.name)
	}
	inst.noDigest = false
	inst.haveDigest = false
	s.stat("node.starts", 1)
	s.logf("node %s started gen %d", n.name, inst.gen)
	return inst
}

func (inst *Inst) ready() bool {
	return inst.srv != nil && inst.srv.loadedAndReady.Load() && !inst.stopped
}

func (inst *Inst) onGrant(r *lockReq) {
	inst.grants = append(inst.grants, grantEvent{step: inst.node.sim.step, role: r.role, conn: connID(r.conn), mode: r.mode})
	if r.mode == modeW {
		inst.wTouched = true
	}
	if inst.onGrantFn != nil {
		inst.onGrantFn(r)
	}
}

func (inst *Inst) onUnlock(r *lockReq) {
	if inst.onUnlockFn != nil {
		inst.onUnlockFn(r)
	}
}

func connID(c *simConn) string {
	if c == nil {
		return ""
	}
	return c.name
}

// killConns resets every connection that touches this instance.
func (inst *Inst) killConns() {
	s := inst.node.sim
	s.mu.Lock()
	var cs []*simConn
	for _, c := range s.conns {
		if c.b.inst == inst || c.a.inst == inst {
			cs = append(cs, c)
		}
	}
	s.mu.Unlock()
	for _, c := range cs {
		c.kill()
	}
}

// crash kills the instance at the current (quiescent) point. What survives is
// a byte-for-byte copy of the data directory as it is on disk now; the old
// instance winds down as a zombie on the old directory.
func (n *Node) crash() {
	s := n.sim
	inst := n.inst
	if inst == nil || inst.dead {
		return
	}
	s.logf("CRASH node %s gen %d", n.name, inst.gen)
	s.stat("fault.crash", 1)
	old := n.dir
	nd := n.freshDir()
	copyDir(old, nd)
	n.dir = nd
	inst.retire()
}

// retire turns the instance into a zombie and lets it wind down.
func (inst *Inst) retire() {
	s := inst.node.sim
	s.mu.Lock()
	inst.dead = true
	if inst.lis != nil {
		inst.lis.refuse = true
	}
	if s.addrs[string(inst.node.addr)] == inst.lis {
		delete(s.addrs, string(inst.node.addr))
	}
	s.mu.Unlock()
	inst.killConns()
	select {
	case inst.shutdown <- true:
	default:
	}
	s.zombies = append(s.zombies, inst)
}

// stopClean signals Shutdown and keeps scheduling (fairly) until Serve returns.
func (n *Node) stopClean() bool {
	s := n.sim
	inst := n.inst
	if inst == nil || inst.dead {
		return true
	}
	s.logf("STOP node %s gen %d", n.name, inst.gen)
	s.stat("node.clean_stops", 1)
	inst.shutdown <- true
	ok := false
	s.quiet(3000, 10*time.Second, func() {
		ok = s.Drain(8*time.Second, func() bool { return inst.stopped })
	})
	if !ok {
		if !s.failed() {
			s.harnessErr("clean stop of %s did not finish", n.name)
		}
	}
	s.mu.Lock()
	inst.dead = true
	s.mu.Unlock()
	inst.killConns()
	s.zombies = append(s.zombies, inst)
	return ok
}

// reap releases what Serve leaks so that the bubble can end.
func (inst *Inst) reap() {
	srv := inst.srv
	if srv == nil {
		return
	}
	inst.killConns()
	if srv.hooks != nil {
		var hs []*Hook
		srv.hooks.Ascend(nil, func(v interface{}) bool {
			hs = append(hs, v.(*Hook))
			return true
		})
		for _, h := range hs {
			// never block on a hook mutex (its sender may be asleep holding it)
			if mu, ok := h.cond.L.(interface {
				TryLock() bool
				Unlock()
			}); ok && mu.TryLock() {
				mu.Unlock()
				h.Close()
			}
		}
	}
	srv.fcond.Broadcast()
	srv.lcond.Broadcast()
	if inst.stopped && srv.qdb != nil {
		srv.qdb.Close()
		srv.qdb = nil
	}
}

func copyDir(from, to string) {
	ents, err := os.ReadDir(from)
	if err != nil {
		panic(err)
	}
	for _, e := range ents {
		if e.IsDir() {
			continue
		}
		src, err := os.Open(filepath.Join(from, e.Name()))
		if err != nil {
			panic(err)
		}
		dst, err := os.Create(filepath.Join(to, e.Name()))
		if err != nil {
			panic(err)
		}
		if _, err := io.Copy(dst, src); err != nil {
			panic(err)
		}
		src.Close()
		dst.Close()
	}
}

// hookMutexHeld reports whether some webhook sender currently holds its
// hook's mutex (only meaningful at quiescent points).
func (inst *Inst) hookMutexHeld() bool {
	srv := inst.srv
	if srv == nil || srv.hooks == nil || srv.hooks.Len() == 0 {
		return false
	}
	held := false
	srv.hooks.Ascend(nil, func(v interface{}) bool {
		h := v.(*Hook)
		if h.channel {
			return true
		}
		if mu, ok := h.cond.L.(interface {
			TryLock() bool
			Unlock()
		}); ok {
			if mu.TryLock() {
				mu.Unlock()
			} else {
				held = true
				return false
			}
		}
		return true
	})
	return held
}

// runZombies lets retired instances wind down under deterministic automatic
// scheduling (lowest key first); nothing they do is visible to the run.
func (s *Sim) runZombies() {
	for iter := 0; iter < 10000; iter++ {
		progress := false
		s.mu.Lock()
		var hidden []*simConn
		for _, c := range s.conns {
			if c.hidden && !c.dead() {
				hidden = append(hidden, c)
			}
		}
		s.mu.Unlock()
		for _, c := range hidden {
			if c.a.deliverAll() {
				progress = true
			}
			if c.b.deliverAll() {
				progress = true
			}
		}
		if progress {
			synctest.Wait()
		}
		for _, z := range s.zombies {
			s.mu.Lock()
			acts := z.lock.actionsLocked()
			s.mu.Unlock()
			if len(acts) == 0 {
				continue
			}
			best := acts[0]
			for _, a := range acts[1:] {
				if a.key < best.key {
					best = a
				}
			}
			best.run()
			synctest.Wait()
			progress = true
		}
		if !progress {
			return
		}
	}
}
