package server

// C09 - AOFSHRINK preserves the dataset, concurrently with writes and across crashes.

import (
	"fmt"
	"math/rand"
	"os"
	"path/filepath"
	"sort"
	"strings"
	"time"
)

func init() { registerProp("C09", runC09) }

var shrinkIOSites = []string{"shrink.write", "shrink.sync", "shrink.swap.write", "shrink.swap.sync", "shrink.chunk.write"}

var shrinkPoints = []string{"shrink.copied", "shrink.swap.synced", "shrink.swap.closed", "shrink.swap.renamed1", "shrink.swap.renamed2", "shrink.swap.reopened"}

// c09Dataset generates the commands that build the initial dataset.
func c09Dataset(r *rand.Rand, nkeys, bigN int) (cmds []Cmd, keys []string) {
	g := defaultGenCfg(9)
	g.exVals = []string{"1000", "2000", "1.5", "3", "900.5"}
	for i := 0; i < nkeys; i++ {
		keys = append(keys, fmt.Sprintf("c%02d", i))
	}
	g.keys = keys
	big := keys[r.Intn(len(keys))]
	for _, k := range keys {
		n := 1 + r.Intn(4)
		if k == big {
			n = bigN
		}
		for j := 0; j < n; j++ {
			id := fmt.Sprintf("i%03d", j)
			g.freeIDs = []string{id}
			g.jsonIDs, g.featIDs = nil, nil
			c := g.setCmd(r, k, id)
			// no NX/XX in the initial load
			var a []string
			for _, x := range c.Args {
				if x == "NX" || x == "XX" {
					continue
				}
				a = append(a, x)
			}
			cmds = append(cmds, Cmd{Args: a})
		}
		if r.Intn(3) == 0 {
			cmds = append(cmds, Cmd{Args: []string{"SET", k, "j1", "STRING", fmt.Sprintf(`{"a":%d,"b":{"c":"s%d"}}`, g.uniq(), g.uniq())}})
		}
		if r.Intn(3) == 0 {
			cmds = append(cmds, Cmd{Args: []string{"SET", k, "g1", "FIELD", "speed", fmt.Sprint(g.uniq()), "OBJECT", g.feature(r)}})
		}
	}
	// hooks and channels with metas and expirations
	nh := 1 + r.Intn(3)
	for i := 0; i < nh; i++ {
		a := []string{"SETHOOK", fmt.Sprintf("h%d", i), fmt.Sprintf("http://hook%d.sim:80/cb", i)}
		if r.Intn(2) == 0 {
			a = append(a, "META", "owner", fmt.Sprintf("m%d", g.uniq()), "META", "zone", "z9")
		}
		if r.Intn(2) == 0 {
			a = append(a, "EX", []string{"1000", "2.5", "500.5"}[r.Intn(3)])
		}
		a = append(a, "NEARBY", "zz"+fmt.Sprint(i), "FENCE", "POINT", g.lat(r), g.lon(r), "5000")
		cmds = append(cmds, Cmd{Args: a})
	}
	nc := 1 + r.Intn(3)
	for i := 0; i < nc; i++ {
		a := []string{"SETCHAN", fmt.Sprintf("ch%d", i)}
		if r.Intn(2) == 0 {
			a = append(a, "META", "k", fmt.Sprintf("v%d", g.uniq()))
		}
		if r.Intn(3) == 0 {
			a = append(a, "EX", "1000")
		}
		a = append(a, "WITHIN", "zy"+fmt.Sprint(i), "FENCE", "DETECT", "enter,exit", "BOUNDS", "10", "10", "20", "20")
		cmds = append(cmds, Cmd{Args: a})
	}
	return cmds, keys
}

// c09Writer generates writes aimed at the dataset while the rewrite runs.
func c09Writer(r *rand.Rand, client int, keys []string, n int, noRename bool) []Cmd {
	g := defaultGenCfg(client)
	g.keys = keys
	g.exVals = []string{"1000", "1.5", "700.5"}
	var p []Cmd
	ids := func() string {
		switch r.Intn(6) {
		case 0:
			return "j1"
		case 1:
			return "g1"
		default:
			return fmt.Sprintf("i%03d", r.Intn(6)*r.Intn(18))
		}
	}
	for i := 0; i < n; i++ {
		k := pick(r, keys)
		id := ids()
		switch x := r.Intn(24); {
		case x < 5:
			g.freeIDs, g.jsonIDs, g.featIDs = []string{"i000"}, []string{"j1"}, []string{"g1"}
			p = append(p, g.setCmd(r, k, id))
		case x < 8:
			p = append(p, Cmd{Args: []string{"FSET", k, id, pick(r, g.fields), g.fieldVal(r)}})
		case x < 11:
			p = append(p, Cmd{Args: []string{"DEL", k, id}})
		case x < 13:
			p = append(p, Cmd{Args: []string{"EXPIRE", k, id, pick(r, g.exVals)}})
		case x < 14:
			p = append(p, Cmd{Args: []string{"PERSIST", k, id}})
		case x < 15:
			p = append(p, Cmd{Args: []string{"JSET", k, "j1", []string{"a", "b.c", "new"}[r.Intn(3)], fmt.Sprint(g.uniq())}})
		case x < 16 && !noRename:
			p = append(p, Cmd{Args: []string{"JDEL", k, "j1", []string{"a", "b.c", "new"}[r.Intn(3)]}})
		case x < 17:
			p = append(p, Cmd{Args: []string{"DROP", k}})
		case x < 20 && !noRename:
			p = append(p, Cmd{Args: []string{[]string{"RENAME", "RENAMENX"}[r.Intn(2)], k, pick(r, keys)}})
		case x < 20:
			p = append(p, Cmd{Args: []string{"DEL", k, id}})
		case x < 21:
			p = append(p, Cmd{Args: []string{"PDEL", k, []string{"i00*", "*", "i01*"}[r.Intn(3)]}})
		case x < 22:
			p = append(p, hookCmd(r, g))
		case x < 23:
			if r.Intn(6) == 0 {
				p = append(p, Cmd{Args: []string{"FLUSHDB"}})
			} else {
				p = append(p, Cmd{Args: []string{"GET", k, id, "WITHFIELDS"}})
			}
		default:
			p = append(p, Cmd{Args: []string{"SCAN", k, "LIMIT", "100000"}})
		}
	}
	return p
}

func runC09(w *World) {
	w.drawWeights()
	w.cut = cutMode(w.knob("cut", 2))
	n := w.addNode("n1", "10.0.0.1", 9851)
	for i := 0; i < 3; i++ {
		w.addWebhook(simAddr(fmt.Sprintf("hook%d.sim:80", i)), nil)
	}
	nkeys := 9 + w.knob("nkeys", 6)
	bigN := 40 + w.knob("bign", 61)
	if w.deep() && w.knob("deep", 3) == 0 {
		nkeys = 17 + w.knob("nkeys2", 20) // three or more key batches
		bigN = 100 + w.knob("bign2", 250)
	}
	var keys []string
	pre := w.program("dataset", func(r *rand.Rand) []Cmd {
		c, _ := c09Dataset(r, nkeys, bigN)
		return c
	})
	for i := 0; i < nkeys; i++ {
		keys = append(keys, fmt.Sprintf("c%02d", i))
	}
	// the dataset is installed as the server's existing log
	n.dir = n.freshDir()
	var raw []byte
	for _, c := range pre {
		raw = append(raw, encodeCmd(c.Args)...)
	}
	// a few runs carry one more collection of ~5 MB, enough for the rewrite to write the new
	// file in more than one chunk (it buffers 4 MB before it writes)
	heavyN := 40
	if w.deep() {
		heavyN = 8
	}
	heavy := w.knob("heavy", heavyN) == 1
	if heavy {
		for i := 0; i < 72; i++ {
			raw = append(raw, encodeCmd([]string{"SET", "zheavy", fmt.Sprintf("h%02d", i), "STRING", fmt.Sprintf("%02d", i) + strings.Repeat("h", 70000)})...)
		}
		w.stat("c09.heavy_datasets", 1)
	}
	os.WriteFile(filepath.Join(n.dir, "appendonly.aof"), raw, 0600)
	os.WriteFile(filepath.Join(n.dir, "config"), []byte(mustJSON(n.config)), 0600)
	inst := n.start()
	if !inst.ready() {
		w.harnessErr("node did not start on the generated dataset: %v", inst.serveErr)
		return
	}
	initial, _, _, _ := modelFromLog(raw, w.now())
	hc := newHistChecker(w, inst, initial, "C09")
	hc.exact = false
	w.stepHooks = append(w.stepHooks, hc.stepHook, auditHook(w, func() *Inst { return n.inst }, "C09"))
	hc.stepHook()
	if w.failed() {
		return
	}

	// half of the runs leave out the commands of the open findings (RENAME/RENAMENX/JDEL during
	// a rewrite), so that no violation in them can be attributed to a known finding
	noRename := w.knob("norename", 2) == 1
	nw := 1 + w.knob("writers", 3)
	per := []int{4, 8, 16}[w.knob("per", 3)]
	if w.deep() && w.knob("deepw", 3) == 0 {
		per = 40
	}
	var writers []*Actor
	for i := 0; i < nw; i++ {
		i := i
		prog := w.program(fmt.Sprintf("w%d", i+1), func(r *rand.Rand) []Cmd { return c09Writer(r, i+1, keys, per, noRename) })
		a := w.addActor(n, simAddr(fmt.Sprintf("127.0.0.1:%d", 50001+i)), prog)
		a.onReply = func(op *Op) { hc.onReply(op, a.end.c.name) }
		writers = append(writers, a)
	}
	shr := w.addActor(n, "127.0.0.1:50100", []Cmd{{Args: []string{"AOFSHRINK"}}})
	shr.weight = 20
	// in a third of the runs a second AOFSHRINK arrives while the first is (probably) still running:
	// it is refused, and must leave the running rewrite alone
	overlap := w.knob("overlap", 3) == 1
	if overlap {
		shrB := w.addActor(n, "127.0.0.1:50102", []Cmd{{Args: []string{"AOFSHRINK"}}})
		shrB.weight = 2
		w.stat("c09.runs_with_second_request", 1)
	}
	// disk errors: in some runs one write or sync of the (first) rewrite fails, as on a full disk.
	// The rewrite must give up and leave the live log, the served dataset and later appends intact.
	ioerr := w.knob("ioerr", 12) // 1..4 = failing operation, otherwise none
	if heavy && ioerr > len(shrinkIOSites) && ioerr%2 == 0 {
		ioerr = len(shrinkIOSites) // the chunk write only exists on a heavy dataset
	}
	if ioerr >= 1 && ioerr <= len(shrinkIOSites) {
		inst.failAt = map[string]int{shrinkIOSites[ioerr-1]: 1}
	} else {
		ioerr = 0
	}
	// which crash point this run aims at (0 = none, 1..6 = named swap point, 7 = a drawn ordinary decision point)
	target := w.knob("crashat", 8)
	crashed := false
	crashWanted := false
	if target == 7 {
		w.faults = append(w.faults, func() []action {
			if crashed || crashWanted || !n.inst.srv.shrinking {
				return nil
			}
			return []action{{kind: akFault, key: "crash during copy", run: func() { crashWanted = true }}}
		})
		w.weights[akFault] = 2
	}
	// the rewrite goroutine parks at named points; at the targeted one the node is killed
	w.stepHooks = append(w.stepHooks, func() {
		if p := n.inst.atPoint; p != "" {
			w.stat("probe.reached."+p, 1)
			if target >= 1 && target <= 6 && p == shrinkPoints[target-1] && !crashed {
				crashWanted = true
			}
		}
	})
	shrinkDone := func() bool {
		if !shr.done() || n.inst.srv.shrinking || n.inst.atPoint != "" {
			return false
		}
		started := false
		for _, g := range n.inst.grants {
			if g.role == "shrink" {
				started = true
				break
			}
		}
		if !started {
			return false
		}
		for _, r := range n.inst.lock.pending {
			if r.role == "shrink" {
				return false
			}
		}
		for _, r := range n.inst.lock.parked {
			if r.role == "shrink" || strings.HasPrefix(r.role, "point:") {
				return false
			}
		}
		return true
	}
	allDone := func() bool {
		for _, a := range writers {
			if !a.done() {
				return false
			}
		}
		return shrinkDone()
	}
	// collections named by RENAME/RENAMENX entries appended while a rewrite was in progress
	renamed := map[string]bool{}
	jdeled := map[string]bool{} // collections in which a JDEL was applied while a rewrite was in progress
	prevOnEntry := hc.lm.onEntry
	hc.lm.onEntry = func(e *lmEntry, before, after *Model) {
		prevOnEntry(e, before, after)
		// (a later rename of an affected collection carries the damage along)
		if c := lower(e.args[0]); (c == "rename" || c == "renamenx") && len(e.args) == 3 && (n.inst.srv.shrinking || renamed[e.args[1]] || renamed[e.args[2]]) {
			renamed[e.args[1]] = true
			renamed[e.args[2]] = true
			w.stat("probe.rename_during_rewrite", 1)
		}
		if lower(e.args[0]) == "jdel" && n.inst.srv.shrinking && len(e.args) == 4 {
			jdeled[e.args[1]] = true
		}
	}
	kAck := func() int {
		k := 0
		for i := range hc.lm.entries {
			if strings.HasPrefix(hc.lm.entries[i].owner, "a") {
				k = i + 1
			}
		}
		return k
	}
	// verifyRecovered: the state a restart produces must be the model after some
	// prefix of the log that contains every acknowledged write.
	verifyRecovered := func(ni *Inst, lo, hi int, what string) bool {
		d := ni.dump()
		var firstErr error
		for k := hi; k >= lo; k-- {
			if err := compareDump(hc.lm.states[k], d, true); err == nil {
				w.stat("probe.recovered_prefix_len_is_"+map[bool]string{true: "full", false: "partial"}[k == len(hc.lm.entries)], 1)
				return true
			} else if firstErr == nil {
				firstErr = err
			}
		}
		// Known finding: RENAME/RENAMENX applied while a rewrite is in progress is replayed from
		// the shrink log against a snapshot in which its source may be missing. A mismatch is
		// attributed to it only when every differing collection was named by such a rename.
		class := "C09/recovered"
		if len(renamed) > 0 || len(jdeled) > 0 {
			// attributed to a known finding only if, for some admissible prefix, every differing
			// collection was named by such a rename / JDEL
			for k := hi; k >= lo && class == "C09/recovered"; k-- {
				dk, hd := diffKeys(hc.lm.states[k], d)
				all, anyRen := !hd, false
				for _, x := range dk {
					if !renamed[x] && !jdeled[x] {
						all = false
					}
					if renamed[x] {
						anyRen = true
					}
				}
				if all && len(dk) > 0 {
					if anyRen {
						class = "C09/recovered-rename"
					} else {
						class = "C09/recovered-jdel"
					}
				}
			}
		}
		w.violate(class, "%s: the recovered dataset is not the model after any log prefix in [%d,%d] (every acknowledged write is within the first %d entries); against the full log: %v; renames during the rewrite touched %v; JDEL during the rewrite touched %v",
			what, lo, hi, lo, firstErr, sortedBoolKeys(renamed), sortedBoolKeys(jdeled))
		return false
	}
	restart := func(what string, lo, hi int) (*Inst, bool) {
		ni := n.start()
		if ni.stopped || !ni.ready() {
			w.violate("C09/restart", "%s: server does not start on the surviving directory: %v", what, ni.serveErr)
			return nil, false
		}
		return ni, verifyRecovered(ni, lo, hi, what)
	}
	budget := (nw*per + 40) * 80
	w.RunChaos(budget, func() bool { return crashWanted || allDone() })
	if w.failed() {
		return
	}
	if crashWanted {
		crashed = true
		at := n.inst.atPoint
		if at == "" {
			at = "copy phase"
		}
		hc.lm.poll()
		lo, hi := kAck(), len(hc.lm.entries)
		ents, _ := os.ReadDir(n.dir)
		var names []string
		for _, e := range ents {
			names = append(names, e.Name())
		}
		sort.Strings(names)
		w.stat("fault.crash_at."+at, 1)
		n.crash()
		w.nontriv = true
		ni, ok := restart(fmt.Sprintf("crash at %s (directory held %v)", at, names), lo, hi)
		if !ok {
			return
		}
		// second act (half of the runs): on the server recovered from the interrupted rewrite the
		// dataset shrinks, the log is rewritten again - this time to the end -, two more writes are
		// acknowledged and the server is restarted once more. Whatever the first rewrite left
		// behind in the directory must not leak into the second one.
		if w.knob("secondact", 2) == 1 {
			for _, a := range writers {
				a.paused = true
			}
			w.Settle()
			want, _, _, _ := modelFromLog(ni.aofStream(), w.now())
			if err := compareDump(want, ni.dump(), true); err != nil {
				// (the recovered state was accepted above as the model after some log prefix; what
				// the server now has on disk must describe the same state)
				w.violate("C09/recovered", "after the restart the served dataset is not what its own log describes: %v", err)
				return
			}
			lm2 := newLogModel(ni, want)
			w.stepHooks = append(w.stepHooks, func() {
				if n.inst == ni && !ni.dead {
					lm2.poll() // entries must be consumed before a rewrite replaces the file
				}
			})
			ob := newObserver(w, n)
			ob.a.from = "127.0.0.1:50300"
			drop := w.program("secondact", func(r *rand.Rand) []Cmd {
				var p []Cmd
				for _, k := range keys {
					if r.Intn(2) == 0 {
						p = append(p, Cmd{Args: []string{"DROP", k}})
					}
				}
				p = append(p, Cmd{Args: []string{"DROP", "zheavy"}})
				return p
			})
			for _, c := range drop {
				if _, ok := ob.do(c.Args...); !ok {
					return
				}
			}
			began := false
			if _, ok := ob.do("AOFSHRINK"); !ok {
				return
			}
			w.Drain(120*time.Second, func() bool {
				if ni.srv.shrinking {
					began = true
				}
				return began && !ni.srv.shrinking && ni.atPoint == ""
			})
			if w.failed() {
				return
			}
			if !began || ni.srv.shrinking {
				w.harnessErr("second rewrite did not run to completion")
				return
			}
			if _, ok := ob.do("SET", keys[0], "post1", "FIELD", "speed", "7", "POINT", "11", "12"); !ok {
				return
			}
			if _, ok := ob.do("SET", "after", "post2", "STRING", "written after the second rewrite"); !ok {
				return
			}
			w.Settle()
			lm2.poll()
			if lm2.bad != nil {
				w.violate("C09/restart", "after the second rewrite the log does not parse as whole commands: %v", lm2.bad)
				return
			}
			if w.knob("secondclean", 2) == 1 {
				n.stopClean()
			} else {
				n.crash()
			}
			n2 := n.start()
			if n2.stopped || !n2.ready() {
				w.violate("C09/restart", "after a second, completed rewrite on a directory that an interrupted rewrite had left behind, the server does not start: %v", n2.serveErr)
				return
			}
			if err := compareDump(lm2.cur(), n2.dump(), true); err != nil {
				w.violate("C09/recovered", "second act (interrupted rewrite, restart, DROPs, completed rewrite, two writes, restart): the recovered dataset is not the acknowledged one: %v", err)
				return
			}
			w.stat("probe.second_rewrite_after_interrupted_one", 1)
		}
	} else {
		if !allDone() {
			w.Drain(60*time.Second, allDone)
		}
		if !allDone() && !w.failed() {
			w.harnessErr("rewrite or writers did not finish")
			return
		}
		hc.lm.poll()
		hc.stepHook()
		if w.failed() {
			return
		}
		w.nontriv = w.stats["probe.reached.shrink.swap.reopened"] > 0
		if ioerr > 0 {
			fired := w.stats["fault.io_error."+shrinkIOSites[ioerr-1]] > 0
			if fired && hc.lm.gen > 0 && !overlap { // (a second request may legitimately rewrite after the failure)
				w.violate("C09/ioerr", "the rewrite replaced the live log although its %s failed", shrinkIOSites[ioerr-1])
				return
			}
			w.nontriv = fired
			if fired && w.knob("again", 2) == 1 {
				// the next rewrite finds the disk healthy
				shr2 := w.addActor(n, "127.0.0.1:50101", []Cmd{{Args: []string{"AOFSHRINK"}}})
				shr2.weight = 20
				shr = shr2
				w.Drain(60*time.Second, func() bool { return shr2.done() && n.inst.srv.shrinking })
				w.Drain(60*time.Second, allDone)
				if w.failed() {
					return
				}
				if hc.lm.gen > 0 {
					w.stat("probe.rewrite_succeeds_after_failed_one", 1)
				}
				hc.lm.poll()
				hc.stepHook()
				if w.failed() {
					return
				}
			}
		}
		// deadlines before the restart (for the "not shortened" check)
		before := n.inst.dump()
		tBefore := time.Now()
		lo, hi := kAck(), len(hc.lm.entries)
		clean := w.knob("clean", 2) == 1
		if clean {
			n.stopClean()
			// the sweeper may have logged expirations while the server was shutting down
			hi = len(hc.lm.entries)
			lo = hi
		} else {
			n.crash()
		}
		ni, ok := restart("restart after a completed rewrite", lo, hi)
		if !ok {
			return
		}
		// every deadline still present and not shortened beyond rounding
		after := ni.dump()
		var aks []string
		for k := range after.cols {
			aks = append(aks, k)
		}
		sort.Strings(aks)
		for _, k := range aks {
			col := after.cols[k]
			var ids []string
			for id := range col {
				ids = append(ids, id)
			}
			sort.Strings(ids)
			for _, id := range ids {
				o := col[id]
				b := before.cols[k][id]
				if b == nil || b.expires == 0 {
					continue
				}
				// (a collection named by a RENAME applied during the rewrite is the open finding
				// C09-rename-during-rewrite: its objects, deadlines included, may be another
				// collection's)
				dclass, dnote := "C09/deadline", ""
				if renamed[k] {
					dclass, dnote = "C09/recovered-rename", fmt.Sprintf("; renames during the rewrite touched %v", sortedBoolKeys(renamed))
				}
				if o.expires == 0 {
					w.violate(dclass, "object %s/%s lost its deadline in the rewrite%s", k, id, dnote)
					return
				}
				// after a reload the remaining TTL is re-based on the reload instant
				if remB, remA := time.Duration(b.expires-tBefore.UnixNano()), time.Duration(o.expires-time.Now().UnixNano()); remA < remB-250*time.Millisecond-time.Since(tBefore) {
					w.violate(dclass, "object %s/%s: remaining TTL %v before the rewrite+restart, %v after%s", k, id, remB, remA, dnote)
					return
				}
			}
		}
	}
	hc.finish(func(e *lmEntry) bool { return true })
	var sm []string
	for _, a := range writers {
		for i, c := range a.prog {
			if i < 5 {
				sm = append(sm, fmt.Sprintf("a%02d %s", a.id, clipStr(c.String(), 70)))
			}
		}
	}
	w.sample = map[string]interface{}{"seed": w.seed, "collections": nkeys, "big_collection_ids": bigN, "dataset_cmds": len(pre),
		"crash_target": append([]string{"none"}, append(append([]string{}, shrinkPoints...), "drawn decision point during copy")...)[target], "writer_cmds": sm}
}

func sortedBoolKeys(m map[string]bool) []string {
	var ks []string
	for k := range m {
		ks = append(ks, k)
	}
	sort.Strings(ks)
	return ks
}
