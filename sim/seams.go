package server

// Types that stand in for primitives of tile38 in build-time copies of single files (bin/build).

import (
	"runtime"
	"strings"
	"sync"
)

// verifMutex replaces the plain mutex around a subscriber connection's writes (pubsub.go,
// liveSubscription): mutual exclusion as before, but a goroutine waiting for it waits on a
// condition variable, which a synctest bubble recognises as blocked.
type verifMutex struct {
	mu   sync.Mutex
	c    *sync.Cond
	held bool
}

var verifMutexInPlace bool

func (m *verifMutex) Lock() {
	verifMutexInPlace = true
	m.mu.Lock()
	if m.c == nil {
		m.c = sync.NewCond(&m.mu)
	}
	for m.held {
		m.c.Wait()
	}
	m.held = true
	m.mu.Unlock()
}

func (m *verifMutex) TryLock() bool {
	m.mu.Lock()
	defer m.mu.Unlock()
	if m.held {
		return false
	}
	m.held = true
	return true
}

func (m *verifMutex) Unlock() {
	m.mu.Lock()
	m.held = false
	if m.c != nil {
		m.c.Signal()
	}
	m.mu.Unlock()
}

// callerIn reports whether a function whose name contains substr is on the caller's stack.
func callerIn(substr string) bool {
	var pcs [48]uintptr
	n := runtime.Callers(3, pcs[:])
	frames := runtime.CallersFrames(pcs[:n])
	for {
		f, more := frames.Next()
		if strings.Contains(f.Function, substr) {
			return true
		}
		if !more {
			return false
		}
	}
}

// verifRWMutex: the readers-writer counterpart (no writer preference; the server's own big lock
// is not one of these - it is the scheduler-owned lock).
type verifRWMutex struct {
	mu      sync.Mutex
	c       *sync.Cond
	writer  bool
	readers int
}

func (m *verifRWMutex) cond() *sync.Cond {
	if m.c == nil {
		m.c = sync.NewCond(&m.mu)
	}
	return m.c
}

func (m *verifRWMutex) Lock() {
	m.mu.Lock()
	c := m.cond()
	for m.writer || m.readers > 0 {
		c.Wait()
	}
	m.writer = true
	m.mu.Unlock()
}

func (m *verifRWMutex) Unlock() {
	m.mu.Lock()
	m.writer = false
	m.cond().Broadcast()
	m.mu.Unlock()
}

func (m *verifRWMutex) RLock() {
	m.mu.Lock()
	c := m.cond()
	for m.writer {
		c.Wait()
	}
	m.readers++
	m.mu.Unlock()
}

func (m *verifRWMutex) RUnlock() {
	m.mu.Lock()
	m.readers--
	if m.readers == 0 {
		m.cond().Broadcast()
	}
	m.mu.Unlock()
}

func (m *verifRWMutex) TryLock() bool {
	m.mu.Lock()
	defer m.mu.Unlock()
	if m.writer || m.readers > 0 {
		return false
	}
	m.writer = true
	return true
}

func (m *verifRWMutex) TryRLock() bool {
	m.mu.Lock()
	defer m.mu.Unlock()
	if m.writer {
		return false
	}
	m.readers++
	return true
}
