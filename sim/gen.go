package server

// Program generators for the keyspace command set.

import (
	"crypto/sha1"
	"encoding/hex"
	"fmt"
	"math/rand"
	"strconv"
	"strings"
)

type genCfg struct {
	lastSet []string // the previous generated SET (for re-issuing it with another deadline)
	client  int      // makes generated values unique across clients
	keys    []string // collection names
	freeIDs []string // ids that may hold any object kind
	jsonIDs []string // ids that only ever hold JSON documents (strings)
	featIDs []string // ids that only ever hold GeoJSON features
	fields  []string
	exVals  []string // EX / EXPIRE arguments to choose from (empty = no deadlines)
	nuniq   int
	// relative weights
	wRead, wWrite, wMulti, wJSON, wExpire int
	wBad                                  int // percentage of deliberately invalid commands
	noFlush                               bool
	bigValues                             bool
}

func defaultGenCfg(client int) *genCfg {
	return &genCfg{
		client:  client,
		keys:    []string{"k1", "k2", "k3"},
		freeIDs: []string{"a", "b", "c"},
		jsonIDs: []string{"j1"},
		featIDs: []string{"g1", "p1"}, // g1: a Feature; p1: a point in its several spellings (both edited with JSET/JDEL)
		fields:  []string{"f1", "f2", "speed"},
		exVals:  []string{"0.2", "0.5", "1", "2", "5", "100"},
		wRead:   10, wWrite: 10, wMulti: 3, wJSON: 4, wExpire: 3,
	}
}

func pick(r *rand.Rand, xs []string) string { return xs[r.Intn(len(xs))] }

func (g *genCfg) uniq() int {
	g.nuniq++
	return g.nuniq*10 + g.client
}

// coordinates with at most 4 decimals, unique per call
func (g *genCfg) lat(r *rand.Rand) string {
	return strconv.FormatFloat(float64(r.Intn(1600000)-800000)/10000, 'f', -1, 64)
}
func (g *genCfg) lon(r *rand.Rand) string {
	u := g.uniq()
	// unique longitude in [-170,170): u is small
	return strconv.FormatFloat(float64((u*37)%3400000-1700000)/10000, 'f', -1, 64)
}

func (g *genCfg) fieldVal(r *rand.Rand) string {
	if r.Intn(12) == 0 {
		// a string (sent as a JSON string literal) whose text would read as another kind
		return []string{fmt.Sprintf(`"%d"`, g.uniq()), `"true"`, `"false"`, `"null"`, fmt.Sprintf(`"{\"q\":%d}"`, g.uniq()), fmt.Sprintf(`" pad%d "`, g.uniq()), `"0"`}[r.Intn(7)]
	}
	switch r.Intn(9) {
	case 0:
		return "0"
	case 1:
		return strconv.Itoa(g.uniq())
	case 2:
		return strconv.FormatFloat(float64(g.uniq())+0.5, 'f', -1, 64)
	case 3:
		return "-" + strconv.Itoa(g.uniq())
	case 4:
		return "true"
	case 5:
		return "false"
	case 6:
		return fmt.Sprintf(`{"n":%d,"s":"x"}`, g.uniq())
	default:
		return fmt.Sprintf("v%d", g.uniq())
	}
}

func (g *genCfg) geoJSON(r *rand.Rand) string {
	lon := func() string { return g.lon(r) }
	lat := func() string { return g.lat(r) }
	switch r.Intn(6) {
	case 5:
		// an empty geometry: stored and counted, but it has no extent and is in no spatial index
		return []string{`{"type":"FeatureCollection","features":[]}`, `{"type":"GeometryCollection","geometries":[]}`}[r.Intn(2)]
	case 0:
		return fmt.Sprintf(`{"type":"Point","coordinates":[%s,%s]}`, lon(), lat())
	case 1:
		return fmt.Sprintf(`{"type":"LineString","coordinates":[[%s,%s],[%s,%s],[%s,%s]]}`, lon(), lat(), lon(), lat(), lon(), lat())
	case 2:
		// small axis-aligned polygon, closed ring
		x, _ := strconv.ParseFloat(lon(), 64)
		y, _ := strconv.ParseFloat(lat(), 64)
		if x > 160 {
			x -= 20
		}
		if y > 70 {
			y -= 20
		}
		f := fnum
		return fmt.Sprintf(`{"type":"Polygon","coordinates":[[[%s,%s],[%s,%s],[%s,%s],[%s,%s],[%s,%s]]]}`,
			f(x), f(y), f(x+1.5), f(y), f(x+1.5), f(y+2.25), f(x), f(y+2.25), f(x), f(y))
	case 3:
		return fmt.Sprintf(`{"type":"MultiPoint","coordinates":[[%s,%s],[%s,%s]]}`, lon(), lat(), lon(), lat())
	default:
		return fmt.Sprintf(`{"type":"Point","coordinates":[%s,%s,%d]}`, lon(), lat(), 1+r.Intn(500))
	}
}

func (g *genCfg) feature(r *rand.Rand) string {
	return fmt.Sprintf(`{"type":"Feature","geometry":{"type":"Point","coordinates":[%s,%s]},"properties":{"name":"n%d","speed":%d}}`,
		g.lon(r), g.lat(r), g.uniq(), g.uniq())
}

func (g *genCfg) geohash(r *rand.Rand) string {
	n := 5 + r.Intn(5)
	b := make([]byte, n)
	for i := range b {
		b[i] = geohashAlphabet[r.Intn(32)]
	}
	// keep away from the poles / antimeridian cells: first char restricted
	b[0] = "6789defghkmstuvw"[r.Intn(16)]
	return string(b)
}

func (g *genCfg) setCmd(r *rand.Rand, key, id string) Cmd {
	if c, ok := g.resetDeadline(r); ok {
		return c
	}
	c := g.setCmdFresh(r, key, id)
	g.lastSet = append([]string(nil), c.Args...)
	return c
}

// resetDeadline re-issues the previous SET with the same value and fields and only its
// deadline changed (added, moved or removed): same object, other TTL.
func (g *genCfg) resetDeadline(r *rand.Rand) (Cmd, bool) {
	if len(g.lastSet) == 0 || len(g.exVals) == 0 || r.Intn(8) != 0 {
		return Cmd{}, false
	}
	var a []string
	had := false
	for i := 0; i < len(g.lastSet); i++ {
		switch strings.ToUpper(g.lastSet[i]) {
		case "EX":
			had = true
			i++
			continue
		case "NX", "XX":
			continue
		}
		a = append(a, g.lastSet[i])
	}
	if len(a) < 5 {
		return Cmd{}, false
	}
	if !had || r.Intn(2) == 0 {
		// insert EX before the value keyword (the last keyword of POINT/BOUNDS/HASH/OBJECT/STRING)
		for i := 3; i < len(a); i++ {
			switch strings.ToUpper(a[i]) {
			case "POINT", "BOUNDS", "HASH", "OBJECT", "STRING":
				b := append([]string(nil), a[:i]...)
				b = append(b, "EX", pick(r, g.exVals))
				a = append(b, a[i:]...)
				i = len(a)
			}
		}
	}
	return Cmd{Args: a}, true
}

func (g *genCfg) setCmdFresh(r *rand.Rand, key, id string) Cmd {
	args := []string{"SET", key, id}
	nf := 0
	if r.Intn(3) == 0 {
		nf = 1 + r.Intn(2)
	}
	used := map[string]bool{}
	for i := 0; i < nf; i++ {
		f := pick(r, g.fields)
		if used[f] {
			continue
		}
		used[f] = true
		args = append(args, "FIELD", f, g.fieldVal(r))
	}
	if len(g.exVals) > 0 && r.Intn(4) == 0 {
		args = append(args, "EX", pick(r, g.exVals))
	}
	switch r.Intn(8) {
	case 0:
		args = append(args, "NX")
	case 1:
		args = append(args, "XX")
	}
	switch {
	case contains(g.jsonIDs, id):
		args = append(args, "STRING", fmt.Sprintf(`{"a":%d,"b":{"c":"s%d"}}`, g.uniq(), g.uniq()))
	case contains(g.featIDs, id) && strings.HasPrefix(id, "p"):
		// a point: flat or with a height (0 is a height too), typed in or as GeoJSON, bare or with
		// a member of its own
		z := []string{"0", "0", "7", "250"}[r.Intn(4)]
		switch r.Intn(6) {
		case 0:
			args = append(args, "POINT", g.lat(r), g.lon(r))
		case 1:
			args = append(args, "POINT", g.lat(r), g.lon(r), z)
		case 2:
			args = append(args, "OBJECT", fmt.Sprintf(`{"type":"Point","coordinates":[%s,%s]}`, g.lon(r), g.lat(r)))
		case 3:
			args = append(args, "OBJECT", fmt.Sprintf(`{"type":"Point","coordinates":[%s,%s,%s]}`, g.lon(r), g.lat(r), z))
		case 4:
			args = append(args, "OBJECT", fmt.Sprintf(`{"type":"Point","coordinates":[%s,%s],"tag":"t%d"}`, g.lon(r), g.lat(r), g.uniq()))
		default:
			args = append(args, "OBJECT", fmt.Sprintf(`{"type":"Point","coordinates":[%s,%s,%s],"tag":"t%d"}`, g.lon(r), g.lat(r), z, g.uniq()))
		}
	case contains(g.featIDs, id):
		args = append(args, "OBJECT", g.feature(r))
	default:
		switch r.Intn(7) {
		case 0, 1:
			args = append(args, "POINT", g.lat(r), g.lon(r))
		case 2:
			args = append(args, "POINT", g.lat(r), g.lon(r), strconv.Itoa((1+r.Intn(900))*r.Intn(4)/3)) // a height, sometimes 0
		case 3:
			lat, _ := strconv.ParseFloat(g.lat(r), 64)
			lon, _ := strconv.ParseFloat(g.lon(r), 64)
			if lat > 70 {
				lat -= 20
			}
			if lon > 160 {
				lon -= 20
			}
			args = append(args, "BOUNDS", fnum(lat), fnum(lon), fnum(lat+1.25), fnum(lon+2.5))
		case 4:
			args = append(args, "HASH", g.geohash(r))
		case 5:
			args = append(args, "OBJECT", g.geoJSON(r))
		default:
			v := fmt.Sprintf("str%d", g.uniq())
			if g.bigValues && r.Intn(4) == 0 {
				v += strings.Repeat("x", 70000+r.Intn(70000))
			}
			args = append(args, "STRING", v)
		}
	}
	return Cmd{Args: args}
}

func contains(xs []string, s string) bool {
	for _, x := range xs {
		if x == s {
			return true
		}
	}
	return false
}

func (g *genCfg) anyID(r *rand.Rand) string {
	n := len(g.freeIDs) + len(g.jsonIDs) + len(g.featIDs)
	i := r.Intn(n)
	if i < len(g.freeIDs) {
		return g.freeIDs[i]
	}
	i -= len(g.freeIDs)
	if i < len(g.jsonIDs) {
		return g.jsonIDs[i]
	}
	return g.featIDs[i-len(g.jsonIDs)]
}

func (g *genCfg) readCmd(r *rand.Rand) Cmd {
	key := pick(r, g.keys)
	id := g.anyID(r)
	switch r.Intn(12) {
	case 0:
		return Cmd{Args: []string{"GET", key, id}}
	case 1:
		return Cmd{Args: []string{"GET", key, id, "WITHFIELDS"}}
	case 2:
		if contains(g.freeIDs, id) {
			return Cmd{Args: []string{"GET", key, id, []string{"POINT", "OBJECT"}[r.Intn(2)]}}
		}
		return Cmd{Args: []string{"GET", key, id, "WITHFIELDS", "OBJECT"}}
	case 3:
		return Cmd{Args: []string{"FGET", key, id, pick(r, g.fields)}}
	case 4:
		return Cmd{Args: []string{"EXISTS", key, id}}
	case 5:
		return Cmd{Args: []string{"FEXISTS", key, id, pick(r, g.fields)}}
	case 6:
		return Cmd{Args: []string{"TTL", key, id}}
	case 7:
		return Cmd{Args: []string{"TYPE", key}}
	case 8:
		return Cmd{Args: []string{"KEYS", []string{"*", "k*", "k1", "k?", "z*"}[r.Intn(5)]}}
	case 9:
		return Cmd{Args: []string{"SCAN", key, "LIMIT", "10000"}}
	case 10:
		if r.Intn(3) == 0 {
			// one page of a paged scan, the cursor anywhere up to a little past the end
			a := []string{"SCAN", key, "CURSOR", strconv.Itoa(r.Intn(8)), "LIMIT", strconv.Itoa(1 + r.Intn(4))}
			if r.Intn(3) == 0 {
				a = append(a, "DESC")
			}
			return Cmd{Args: append(a, []string{"IDS", "OBJECTS"}[r.Intn(2)])}
		}
		return Cmd{Args: []string{"SCAN", key, []string{"IDS", "COUNT"}[r.Intn(2)]}}
	default:
		if len(g.jsonIDs) > 0 && r.Intn(2) == 0 {
			return Cmd{Args: []string{"JGET", key, pick(r, g.jsonIDs), []string{"a", "b.c", "b", "zz", "new"}[r.Intn(5)]}}
		}
		if len(g.featIDs) > 0 {
			return Cmd{Args: []string{"JGET", key, pick(r, g.featIDs), []string{"properties.name", "properties.speed", "properties.tag", "type", "tag", "name", "coordinates"}[r.Intn(7)]}}
		}
		return Cmd{Args: []string{"GET", key, id}}
	}
}

func (g *genCfg) writeCmd(r *rand.Rand) Cmd {
	key := pick(r, g.keys)
	id := g.anyID(r)
	switch r.Intn(10) {
	case 0, 1, 2, 3, 4:
		return g.setCmd(r, key, id)
	case 5, 6:
		args := []string{"FSET", key, id}
		if r.Intn(4) == 0 {
			args = append(args, "XX")
		}
		// one to three pairs; a name may come back within one command (the pairs apply in order),
		// and values are often from a small set so that "same value as stored" happens
		n := 1 + r.Intn(3)
		for i := 0; i < n; i++ {
			f := pick(r, g.fields)
			if i > 0 && r.Intn(3) == 0 {
				f = args[len(args)-2]
			}
			v := g.fieldVal(r)
			if r.Intn(3) == 0 {
				v = []string{"0", "1", "2"}[r.Intn(3)]
			}
			args = append(args, f, v)
		}
		return Cmd{Args: args}
	default:
		return Cmd{Args: []string{"DEL", key, id}}
	}
}

func (g *genCfg) multiCmd(r *rand.Rand) Cmd {
	key := pick(r, g.keys)
	switch r.Intn(9) {
	case 0, 1:
		return Cmd{Args: []string{"PDEL", key, []string{"*", "a*", "g?", "j*", "g1", "zz*", "b", "g*x*", "j[2]*", "p?z*", "j[0-9]*", "g*1*"}[r.Intn(12)]}}
	case 2, 3:
		return Cmd{Args: []string{"DROP", key}}
	case 4, 5:
		return Cmd{Args: []string{"RENAME", key, pick(r, g.keys)}}
	case 6, 7:
		return Cmd{Args: []string{"RENAMENX", key, pick(r, g.keys)}}
	default:
		if g.noFlush {
			return Cmd{Args: []string{"DROP", key}}
		}
		return Cmd{Args: []string{"FLUSHDB"}}
	}
}

func (g *genCfg) jsonCmd(r *rand.Rand) Cmd {
	key := pick(r, g.keys)
	val := func() []string {
		switch r.Intn(5) {
		case 0:
			return []string{strconv.Itoa(g.uniq())}
		case 1:
			return []string{fmt.Sprintf("w%d", g.uniq())}
		case 2:
			return []string{"true"}
		case 3:
			return []string{fmt.Sprintf(`{"q":%d}`, g.uniq()), "RAW"}
		default:
			return []string{strconv.Itoa(g.uniq()), "STR"}
		}
	}
	if len(g.featIDs) > 0 && r.Intn(3) == 0 {
		id := pick(r, g.featIDs)
		path := []string{"properties.name", "properties.speed", "properties.tag"}[r.Intn(3)]
		if strings.HasPrefix(id, "p") {
			path = []string{"tag", "name", "properties.name"}[r.Intn(3)]
		}
		if r.Intn(3) == 0 {
			return Cmd{Args: []string{"JDEL", key, id, path}}
		}
		return Cmd{Args: append([]string{"JSET", key, id, path}, val()...)}
	}
	if len(g.jsonIDs) == 0 {
		return g.writeCmd(r)
	}
	id := pick(r, g.jsonIDs)
	path := []string{"a", "b.c", "new", "b.d", "deep.x.y"}[r.Intn(5)]
	if r.Intn(3) == 0 {
		return Cmd{Args: []string{"JDEL", key, id, path}}
	}
	return Cmd{Args: append([]string{"JSET", key, id, path}, val()...)}
}

func (g *genCfg) expireCmd(r *rand.Rand) Cmd {
	key := pick(r, g.keys)
	id := g.anyID(r)
	if len(g.exVals) == 0 || r.Intn(3) == 0 {
		return Cmd{Args: []string{"PERSIST", key, id}}
	}
	return Cmd{Args: []string{"EXPIRE", key, id, pick(r, g.exVals)}}
}

// badCmd generates a command that must be answered with an error and change nothing.
func (g *genCfg) badCmd(r *rand.Rand) Cmd {
	key := pick(r, g.keys)
	id := g.anyID(r)
	var a []string
	switch r.Intn(18) {
	case 14:
		// searches that get as far as their area and fail there, after every earlier clause
		// (filters that run scripts included) has been set up
		a = []string{"NEARBY", key, "WHEREEVAL", "return true", "0", "POINT", "abc", "-115"}
	case 15:
		a = []string{"WITHIN", key, "WHEREEVAL", "return FIELDS.speed ~= nil", "0", "IDS", "BOUNDS", "1", "2", "3", "x"}
	case 16:
		a = []string{"INTERSECTS", key, "WHERE", "speed", "0", "10", "WHEREEVAL", "return true", "0", "GET", "nokey", "noid"}
	case 17:
		a = []string{"WITHIN", key, "WHEREEVAL", "return true", "0", "COUNT", "OBJECT", `{"type":"Polygon","coordinates":[[[1`}
	case 0:
		a = []string{"SET", key, id, "POINT", "abc", "10"}
	case 1:
		a = []string{"SET", key, id, "NX", "XX", "POINT", "1", "2"}
	case 2:
		a = []string{"SET", key, id, "FIELD", "z", "5", "POINT", "1", "2"}
	case 3:
		a = []string{"SET", key, id, "EX", "soon", "POINT", "1", "2"}
	case 4:
		a = []string{"SET", key, id, "OBJECT", `{"type":"Point","coordinates":[1`}
	case 5:
		a = []string{"SET", key, id, "BOUNDS", "1", "2", "3"}
	case 6:
		a = []string{"FSET", key, id, "lat", "5"}
	case 7:
		a = []string{"FSET", key, id, "f1"}
	case 8:
		a = []string{"EXPIRE", key, id, "never"}
	case 9:
		a = []string{"DEL", key, id, "BOGUS"}
	case 10:
		a = []string{"RENAME", key}
	case 11:
		a = []string{"PDEL", key}
	case 12:
		a = []string{"SET", key, id}
	default:
		a = []string{"GET", key, id, "HASH", "99"}
	}
	return Cmd{Args: a, Tag: "bad"}
}

func (g *genCfg) cmd(r *rand.Rand) Cmd {
	if g.wBad > 0 && r.Intn(100) < g.wBad {
		return g.badCmd(r)
	}
	total := g.wRead + g.wWrite + g.wMulti + g.wJSON + g.wExpire
	x := r.Intn(total)
	switch {
	case x < g.wRead:
		return g.readCmd(r)
	case x < g.wRead+g.wWrite:
		return g.writeCmd(r)
	case x < g.wRead+g.wWrite+g.wMulti:
		return g.multiCmd(r)
	case x < g.wRead+g.wWrite+g.wMulti+g.wJSON:
		return g.jsonCmd(r)
	default:
		return g.expireCmd(r)
	}
}

func (g *genCfg) program(r *rand.Rand, n int) []Cmd {
	p := make([]Cmd, 0, n)
	for i := 0; i < n; i++ {
		p = append(p, g.cmd(r))
	}
	return p
}

// appendScript appends a script command, one time in three in its by-hash form: SCRIPT LOAD
// followed by EVALSHA / EVALNASHA / EVALROSHA with the script's SHA-1.
func appendScript(p []Cmd, r *rand.Rand, c Cmd) []Cmd {
	if r.Intn(3) != 0 || len(c.Args) < 3 {
		return append(p, c)
	}
	sum := sha1.Sum([]byte(c.Args[1]))
	c2 := c
	c2.Args = append([]string(nil), c.Args...)
	c2.Args[0] = c.Args[0] + "SHA"
	c2.Args[1] = hex.EncodeToString(sum[:])
	return append(p, Cmd{Args: []string{"SCRIPT", "LOAD", c.Args[1]}, Tag: "aux"}, c2)
}
