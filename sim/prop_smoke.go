package server

import (
	"fmt"
	"math/rand"
	"time"
)

func init() { registerProp("smoke", runSmoke) }

func runSmoke(w *World) {
	w.drawWeights()
	w.cut = cutMode(w.knob("cut", 3))
	n := w.addNode("n1", "10.0.0.1", 9851)
	n.start()
	na := 2 + w.knob("actors", 2)
	for i := 0; i < na; i++ {
		name := fmt.Sprintf("p%d", i)
		prog := w.program(name, func(r *rand.Rand) []Cmd {
			var p []Cmd
			for j := 0; j < 12; j++ {
				id := fmt.Sprintf("id%d", r.Intn(3))
				switch r.Intn(5) {
				case 0:
					p = append(p, Cmd{Args: []string{"SET", "fleet", id, "EX", "0.3", "POINT", "33", fmt.Sprint(-115 + r.Intn(10))}})
				case 1:
					p = append(p, Cmd{Args: []string{"SET", "fleet", id, "POINT", "33", fmt.Sprint(-115 + r.Intn(10))}})
				case 2:
					p = append(p, Cmd{Args: []string{"GET", "fleet", id}})
				case 3:
					p = append(p, Cmd{Args: []string{"DEL", "fleet", id}})
				case 4:
					p = append(p, Cmd{Args: []string{"SCAN", "fleet"}, Pipe: true})
				}
			}
			return p
		})
		w.addActor(n, simAddr(fmt.Sprintf("127.0.0.1:%d", 50000+i)), prog)
	}
	w.RunChaos(600, func() bool {
		for _, a := range w.actors {
			if !a.done() {
				return false
			}
		}
		return true
	})
	w.Sleep(2 * time.Second)
	w.nontriv = true
}
