package server

// Deterministic simulator core: choice source, event log, scheduler loop.
//
// This file (like every file in /verif/sim) is grafted onto the repository
// tree as an in-package test file by `go test -overlay`; it is never part of
// the shipped binary.

import (
	"fmt"
	"hash/fnv"
	"math/rand"
	"sort"
	"strings"
	"sync"
	"testing/synctest"
	"time"
)

// ---------------------------------------------------------------------------
// choice source: the only place a run may obtain a nondeterministic value.

type chooser struct {
	rng    *rand.Rand
	replay []uint32 // when non-nil, values come from here (then default 0)
	rec    []uint32 // every value drawn, in order
	pos    int
}

func newChooser(seed int64) *chooser {
	return &chooser{rng: rand.New(rand.NewSource(seed))}
}

func newReplayChooser(vec []uint32) *chooser {
	if vec == nil {
		vec = []uint32{}
	}
	return &chooser{replay: vec}
}

// choose returns a value in [0,n).
func (c *chooser) choose(n int) int {
	if n <= 1 {
		// still recorded so that vectors stay aligned when n changes
		c.rec = append(c.rec, 0)
		c.pos++
		return 0
	}
	var v int
	if c.replay != nil {
		if c.pos < len(c.replay) {
			v = int(c.replay[c.pos]) % n
		}
	} else {
		v = c.rng.Intn(n)
	}
	c.pos++
	c.rec = append(c.rec, uint32(v))
	return v
}

// ---------------------------------------------------------------------------

type actionKind int

const (
	akGrant   actionKind = iota // grant a pending lock request
	akResume                    // resume a goroutine parked after unlock / at a point
	akDeliver                   // deliver in-flight bytes (or EOF) of one connection direction
	akClient                    // a client actor issues its next command
	akTick                      // advance virtual time
	akFault                     // inject a fault / environment action
	akCount
)

var actionKindNames = [...]string{"grant", "resume", "deliver", "client", "tick", "fault"}

type action struct {
	kind actionKind
	key  string // stable identity, used for sorting and logging
	run  func()
	w    int // optional extra weight inside its kind (0 = 1)
}

// Violation is what an oracle reports.
type Violation struct {
	Class string // short stable class, e.g. "ack-before-file"
	Msg   string
	Step  int
}

func (v *Violation) Error() string { return fmt.Sprintf("[%s] step %d: %s", v.Class, v.Step, v.Msg) }

// Sim is one simulated world (one run).
type Sim struct {
	mu sync.Mutex // guards every structure below that hook callbacks touch

	ch    *chooser
	step  int
	start time.Time

	nodes     map[string]*Node // by name
	nodeSeq   []*Node
	addrs     map[string]*simListener // "host:port" -> listener (current instance)
	conns     []*simConn
	connSeq   int
	connCount map[string]int
	subWindow bool // the send window applies to subscriber connections too (needs the seam of sim/seams.go)
	sndWindow int  // >0: server-side writes block while this many bytes are undelivered
	statMu    sync.Mutex
	actors    []*Actor
	gmap      map[uint64]*ginfo // goroutine id -> identity

	weights   [akCount]int
	chaos     bool // chaos phase (random) vs drain phase (fair)
	rrCounter int
	faults    []func() []action // fault/environment action providers
	extra     []func() []action // property-specific action providers (any kind)
	stepHooks []func()          // invariants evaluated at every quiescent point

	log      []string
	logOn    bool
	viol     *Violation
	herr     error // harness-internal trouble (never a violation)
	stats    map[string]int
	schedSig uint64 // rolling hash of the schedule (grant/deliver order)
	maxSteps int

	stepTime []time.Duration // virtual time (since start) at each step

	baseDir   string
	zombies   []*Inst
	cut       cutMode
	cutActors bool

	endVirtual  time.Duration
	noTickWhile func() bool
	maxTick     time.Duration // when > 0, chaos ticks are capped (keeps client timeouts out of a configuration)
	zsink       *Webhook
	hiddenSeq   int
}

func newSim(ch *chooser) *Sim {
	s := &Sim{
		ch:    ch,
		nodes: map[string]*Node{},
		addrs: map[string]*simListener{},
		gmap:  map[uint64]*ginfo{},
		stats: map[string]int{},
		logOn: true,
	}
	for i := range s.weights {
		s.weights[i] = 10
	}
	s.weights[akTick] = 2
	s.weights[akFault] = 1
	s.chaos = true
	s.maxSteps = 20000
	s.start = time.Now()
	return s
}

func (s *Sim) now() time.Duration { return time.Since(s.start) }

func (s *Sim) logf(format string, args ...interface{}) {
	if !s.logOn {
		return
	}
	line := fmt.Sprintf("%d ", s.step) + fmt.Sprintf(format, args...)
	s.statMu.Lock()
	s.log = append(s.log, line)
	s.statMu.Unlock()
}

// stat counts an event. Server goroutines count too (from hooks and from the simulated
// sockets), and on a loaded machine one of them can be preempted in the middle of a map
// assignment while the scheduler goroutine counts something else: the map has its own lock.
func (s *Sim) stat(name string, n int) {
	s.statMu.Lock()
	s.stats[name] += n
	s.statMu.Unlock()
}

// statLocked is for hook callbacks that already hold s.mu.
func (s *Sim) violate(class, format string, args ...interface{}) {
	if s.viol == nil {
		s.viol = &Violation{Class: class, Msg: fmt.Sprintf(format, args...), Step: s.step}
		s.logf("VIOLATION %s: %s", class, s.viol.Msg)
	}
}

func (s *Sim) harnessErr(format string, args ...interface{}) {
	if s.herr == nil {
		s.herr = fmt.Errorf("harness: step %d: "+format, append([]interface{}{s.step}, args...)...)
	}
}

func (s *Sim) failed() bool { return s.viol != nil || s.herr != nil }

// enabled collects every action that may be taken now, sorted by a stable key.
func (s *Sim) enabled() []action {
	var acts []action
	s.mu.Lock()
	for _, n := range s.nodeSeq {
		acts = append(acts, n.lockActions()...)
	}
	for _, c := range s.conns {
		acts = append(acts, c.deliverActions()...)
	}
	s.mu.Unlock()
	for _, a := range s.actors {
		acts = append(acts, a.actions()...)
	}
	for _, f := range s.extra {
		acts = append(acts, f()...)
	}
	if s.chaos {
		for _, f := range s.faults {
			acts = append(acts, f()...)
		}
	}
	sort.SliceStable(acts, func(i, j int) bool {
		if acts[i].kind != acts[j].kind {
			return acts[i].kind < acts[j].kind
		}
		return acts[i].key < acts[j].key
	})
	for i := 1; i < len(acts); i++ {
		if acts[i].kind == acts[i-1].kind && acts[i].key == acts[i-1].key {
			s.harnessErr("ambiguous action key %q", acts[i].key)
		}
	}
	return acts
}

func (s *Sim) tickAction(d time.Duration) action {
	return action{kind: akTick, key: "tick " + d.String(), run: func() {
		s.stat("ticks", 1)
		time.Sleep(d)
	}}
}

var tickChoices = []time.Duration{
	time.Millisecond, 10 * time.Millisecond, 50 * time.Millisecond, 100 * time.Millisecond,
	200 * time.Millisecond, 250 * time.Millisecond, 500 * time.Millisecond, time.Second, 2 * time.Second,
}

// Step takes one scheduling decision. It returns false when nothing but a
// tick is enabled (quiescent system).
func (s *Sim) Step() (progress bool) {
	synctest.Wait()
	if len(s.zombies) > 0 {
		s.runZombies()
	}
	s.noteTime()
	for _, h := range s.stepHooks {
		h()
		if s.failed() {
			return false
		}
	}
	acts := s.enabled()
	if s.failed() {
		return false
	}
	var chosen action
	if s.chaos {
		// pick a kind by weight among kinds that have an enabled action
		var present [akCount]bool
		for _, a := range acts {
			present[a.kind] = true
		}
		// a configuration may forbid time to pass while something is pending (e.g. an HTTP
		// exchange with a healthy endpoint, whose client would otherwise time out only
		// because the scheduler starved its delivery)
		present[akTick] = len(acts) == 0 || s.noTickWhile == nil || !s.noTickWhile()
		total := 0
		for k := 0; k < int(akCount); k++ {
			if present[k] {
				total += s.weights[k]
			}
		}
		if total == 0 {
			present[akTick] = true
			total = 1
		}
		r := s.ch.choose(total)
		kind := akTick
		for k := 0; k < int(akCount); k++ {
			if !present[k] {
				continue
			}
			if r < s.weights[k] {
				kind = actionKind(k)
				break
			}
			r -= s.weights[k]
		}
		if kind == akTick {
			d := tickChoices[s.ch.choose(len(tickChoices))]
			if s.maxTick > 0 && d > s.maxTick {
				d = s.maxTick
			}
			chosen = s.tickAction(d)
		} else {
			var sub []action
			tw := 0
			for _, a := range acts {
				if a.kind == kind {
					if a.w == 0 {
						a.w = 1
					}
					tw += a.w
					sub = append(sub, a)
				}
			}
			r := s.ch.choose(tw)
			for _, a := range sub {
				if r < a.w {
					chosen = a
					break
				}
				r -= a.w
			}
		}
	} else {
		// drain phase: fair round robin over enabled non-fault actions
		var sub []action
		for _, a := range acts {
			if a.kind != akFault {
				sub = append(sub, a)
			}
		}
		if len(sub) == 0 {
			return false
		}
		s.rrCounter++
		chosen = sub[s.rrCounter%len(sub)]
	}
	s.step++
	s.logf("%s %s", actionKindNames[chosen.kind], chosen.key)
	if s.logOn && (chosen.kind == akGrant || chosen.kind == akDeliver || chosen.kind == akResume) {
		h := fnv.New64a()
		fmt.Fprintf(h, "%d|%s", s.schedSig, chosen.key)
		s.schedSig = h.Sum64()
	}
	s.stat("steps", 1)
	s.stat("act."+actionKindNames[chosen.kind], 1)
	chosen.run()
	return true
}

// RunChaos runs the chaos phase for at most n steps or until done() is true.
func (s *Sim) RunChaos(n int, done func() bool) {
	s.chaos = true
	for i := 0; i < n && !s.failed(); i++ {
		synctest.Wait() // the previous action's goroutines must be parked before anyone looks
		if done != nil && done() {
			return
		}
		if s.step >= s.maxSteps {
			return
		}
		s.Step()
	}
}

// Drain runs fair scheduling (no faults) until done() or until the system is
// quiescent; virtual time is advanced in slices when nothing else is enabled.
// It returns true when done() became true.
func (s *Sim) Drain(maxVirtual time.Duration, done func() bool) bool {
	was := s.chaos
	s.chaos = false
	defer func() { s.chaos = was }()
	deadline := s.now() + maxVirtual
	idle := 0
	for !s.failed() {
		synctest.Wait()
		if done != nil && done() {
			return true
		}
		if s.Step() {
			idle = 0
			if s.step > s.maxSteps*4 {
				s.harnessErr("drain exceeded step budget")
				return false
			}
			continue
		}
		if s.failed() {
			return false
		}
		if s.now() >= deadline {
			return done == nil
		}
		if done == nil {
			idle++
			if idle > 3 {
				return true
			}
		}
		s.step++
		s.logf("tick(drain) 100ms")
		time.Sleep(100 * time.Millisecond)
	}
	return false
}

// Settle runs fair scheduling until no non-tick action is enabled (does not
// advance time by itself).
func (s *Sim) Settle() {
	was := s.chaos
	s.chaos = false
	defer func() { s.chaos = was }()
	for !s.failed() && s.Step() {
		if s.step > s.maxSteps*4 {
			s.harnessErr("settle exceeded step budget")
			return
		}
	}
}

// Sleep advances virtual time under fair scheduling.
func (s *Sim) Sleep(d time.Duration) {
	end := s.now() + d
	s.Drain(d, func() bool { return s.now() >= end })
}

func (s *Sim) logText() string { return strings.Join(s.log, "\n") }

func (s *Sim) logHash() uint64 {
	h := fnv.New64a()
	for _, l := range s.log {
		h.Write([]byte(l))
		h.Write([]byte{'\n'})
	}
	return h.Sum64()
}

// drawWeights sets per-run action weights swarm style.
// drawNet draws the run's network knobs (recorded by name, so older replay files keep their
// meaning): the send window after which a server-side Write blocks until delivery.
func (s *Sim) drawNet(knob func(string, int) int) {
	s.sndWindow = []int{0, 0, 1, 300, 5000}[knob("sndwin", 5)]
	s.subWindow = knob("subwin", 2) == 1 // the window also holds back writes to subscribers
}

func (s *Sim) drawWeights() {
	opts := []int{1, 3, 10, 30}
	for k := range s.weights {
		s.weights[k] = opts[s.ch.choose(len(opts))]
	}
	s.weights[akTick] = []int{1, 1, 2, 5}[s.ch.choose(4)]
	s.weights[akFault] = []int{1, 1, 2, 4}[s.ch.choose(4)]
}

// timeAt returns the virtual time at which action number step completed.
func (s *Sim) timeAt(step int) time.Duration {
	if step < 0 {
		return 0
	}
	if step >= len(s.stepTime) {
		return s.now()
	}
	return s.stepTime[step]
}

func (s *Sim) noteTime() {
	now := s.now()
	for len(s.stepTime) <= s.step {
		s.stepTime = append(s.stepTime, now)
	}
}

// quiet runs f as a region whose internal scheduling is not part of the
// run's observable history: logging is off, and afterwards the step counter
// and the virtual clock are advanced to fixed offsets from the region's
// start. This absorbs the one source of nondeterminism the simulator does
// not control - the order of goroutines woken by timers that fire at the very
// same virtual instant (tile38's shutdown path waits on several such loops).
func (s *Sim) quiet(stepBudget int, dur time.Duration, f func()) {
	startStep, startT := s.step, s.now()
	logWas, sigWas := s.logOn, s.schedSig
	s.logOn = false
	f()
	s.logOn = logWas
	s.schedSig = sigWas
	if s.step > startStep+stepBudget {
		s.harnessErr("quiet region used %d steps (budget %d)", s.step-startStep, stepBudget)
	}
	s.step = startStep + stepBudget
	s.rrCounter = 0
	if rem := startT + dur - s.now(); rem > 0 {
		time.Sleep(rem)
	} else if rem < 0 {
		s.harnessErr("quiet region took %v of virtual time (budget %v)", s.now()-startT, dur)
	}
	synctest.Wait()
	s.noteTime()
}

// httpInFlight reports whether a webhook request or response is in flight on a
// connection whose endpoint is answering (not scripted to hang).
func (s *Sim) httpInFlight(hanging func(addr string) bool) bool {
	s.mu.Lock()
	defer s.mu.Unlock()
	for _, c := range s.conns {
		if c.hidden || !strings.HasPrefix(c.label, "http:") || c.dead() {
			continue
		}
		if c.a.inflightN == 0 && c.b.inflightN == 0 {
			continue
		}
		if hanging != nil && hanging(string(c.b.local)) {
			continue
		}
		return true
	}
	return false
}
