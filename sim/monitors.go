package server

// Cross-run monitors: lock discipline, API dump.

import (
	"fmt"
	"time"
)

// lockDiscipline returns a quiescent-point invariant: the protected state of
// an instance may only change while some goroutine holds (or held during the
// last action) the exclusive lock.
func lockDiscipline(w *World, inst *Inst, class string) func() {
	return func() {
		if inst.dead || inst.srv == nil || inst.noDigest {
			return
		}
		w.mu.Lock()
		touched := inst.wTouched
		inst.wTouched = inst.lock.writer != nil
		w.mu.Unlock()
		d := inst.digest()
		if inst.haveDigest && d != inst.lastDigest && !touched {
			var holders []string
			for _, r := range inst.lock.readers {
				holders = append(holders, r.key())
			}
			last := ""
			if len(w.log) > 0 {
				last = w.log[len(w.log)-1]
			}
			w.violate(class+"/lock", "protected state changed while nobody held the exclusive lock (shared holders: %v; last action: %s)", holders, last)
		}
		inst.lastDigest = d
		inst.haveDigest = true
	}
}

// syncCmd issues one command on a private observer connection and runs the
// scheduler fairly until the reply arrives.
type observer struct {
	w *World
	a *Actor
}

func newObserver(w *World, n *Node) *observer {
	a := w.addActor(n, simAddr(fmt.Sprintf("127.0.0.1:%d", 59000+len(w.actors))), nil)
	a.paused = true
	return &observer{w: w, a: a}
}

func (o *observer) do(args ...string) (rv, bool) {
	a := o.a
	a.prog = append(a.prog, Cmd{Args: args})
	a.paused = false
	idx := len(a.prog) - 1
	ok := o.w.Drain(30*time.Second, func() bool {
		return len(a.ops) > idx && (a.ops[idx].Return >= 0 || a.ops[idx].Lost)
	})
	a.paused = true
	if !ok || len(a.ops) <= idx || a.ops[idx].Return < 0 {
		return rv{}, false
	}
	return a.ops[idx].Reply, true
}

// apiDumpCheck reads the whole dataset through the client API (KEYS, SCAN,
// TTL, HOOKS, CHANS) and compares it with the model.
func apiDumpCheck(w *World, n *Node, lm *LogModel, class string) {
	ob := newObserver(w, n)
	check := func(args ...string) bool {
		v, ok := ob.do(args...)
		if !ok {
			if !w.failed() {
				w.harnessErr("observer command %v got no reply", args)
			}
			return false
		}
		lm.poll()
		m := lm.cur().clone()
		r := m.apply(args, w.now())
		if r.undef {
			w.harnessErr("observer command outside model: %v", args)
			return false
		}
		if err := r.exp(v); err != nil {
			w.violate(class+"/apidump", "%v: %v", args, err)
			return false
		}
		return true
	}
	if !check("KEYS", "*") {
		return
	}
	for _, k := range lm.cur().sortedKeys() {
		if !check("SCAN", k, "LIMIT", "100000") {
			return
		}
		for _, id := range sortedIDs(lm.cur().cols[k]) {
			o := lm.cur().get(k, id)
			if o == nil {
				continue // expired meanwhile
			}
			v, ok := ob.do("TTL", k, id)
			if !ok {
				return
			}
			lm.poll()
			o = lm.cur().get(k, id)
			if o == nil {
				continue
			}
			if (v.String() != ":-1") != o.hasDL {
				w.violate(class+"/apidump", "TTL %s %s = %s but model has-deadline=%v", k, id, v.String(), o.hasDL)
				return
			}
		}
	}
	check("HOOKS", "*")
	check("CHANS", "*")
}
