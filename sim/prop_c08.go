package server

// C08 - a write is in the log FILE before its acknowledgement leaves the server.

import (
	"bytes"
	"fmt"
	"math/rand"
	"os"
	"path/filepath"
	"strings"
)

func init() { registerProp("C08", runC08) }

// ackTap watches the reply byte stream of one server-side connection end.
type ackTap struct {
	w     *World
	inst  *Inst
	actor *Actor
	gen   int
	buf   []byte
	n     int // replies seen so far on this connection
	class string
	// counters
	checked *int
	// swap.step = the step during which a rewrite last replaced the log file (-1: never)
	swap *swapMark
}

type swapMark struct {
	step int
	last os.FileInfo // the file last seen behind the log's path
}

func (t *ackTap) onWrite(e *connEnd, b []byte) {
	w := t.w
	t.buf = append(t.buf, b...)
	for len(t.buf) > 0 {
		v, n, ok, err := parseRESP(t.buf)
		if err != nil || !ok {
			return
		}
		t.buf = t.buf[n:]
		// the n-th reply on this connection answers the n-th command sent on it
		var op *Op
		k := 0
		for _, o := range t.actor.ops {
			if o.ConnGen == t.gen {
				if k == t.n {
					op = o
					break
				}
				k++
			}
		}
		t.n++
		if op == nil {
			return // stream message after go-live
		}
		path := t.inst.srv.opts.AppendFileName
		if t.swap != nil {
			// (the rename happens a few steps before the server re-opens the file: the file
			// behind the path is what counts, and it may have changed within this very step)
			if fi, err := os.Stat(path); err == nil && t.swap.last != nil && !os.SameFile(fi, t.swap.last) {
				t.swap.last = fi
				t.swap.step = w.step
			}
		}
		if t.swap != nil && t.swap.step >= op.Invoke {
			// A rewrite replaced the file while this command was in flight: the rewritten file
			// holds the dataset, not the command's text (its effect may already be overwritten by
			// a later write). What a restart recovers after a rewrite is C09's and C03's subject;
			// the literal check applies to every command sent after the swap.
			w.stat("c08.acks_across_a_rewrite", 1)
			continue
		}
		if len(op.Cmd.Inner) > 0 {
			// a script whose writes are known: when its (non-error) reply leaves, every one of
			// them is in the file
			if v.isErr() {
				continue
			}
			*t.checked++
			fb, _ := os.ReadFile(path)
			for _, in := range op.Cmd.Inner {
				if !bytes.Contains(fb, encodeCmd(in)) {
					w.violate(t.class+"/ack-before-file",
						"reply %s to the script [%s] is being written to connection %s while its write [%s] is not in appendonly.aof (file has %d bytes; still in the in-memory buffer: %v)",
						v.String(), clipStr(op.Cmd.String(), 100), e.c.name, clipStr(strings.Join(in, " "), 100), len(fb), bytes.Contains(t.inst.srv.aofbuf, encodeCmd(in)))
					break
				}
			}
			continue
		}
		if !ackIsDurableWrite(op, v) {
			continue
		}
		*t.checked++
		fb, _ := os.ReadFile(path)
		if !bytes.Contains(fb, encodeCmd(op.Cmd.Args)) {
			inbuf := bytes.Contains(t.inst.srv.aofbuf, encodeCmd(op.Cmd.Args))
			w.violate(t.class+"/ack-before-file",
				"reply %s to [%s] is being written to connection %s while the command is not in %s (file has %d bytes; command still in the in-memory buffer: %v)",
				v.String(), clipStr(op.Cmd.String(), 120), e.c.name, "appendonly.aof", len(fb), inbuf)
		}
	}
}

// ackIsDurableWrite: the reply acknowledges a command that changed state.
func ackIsDurableWrite(op *Op, v rv) bool {
	switch op.name() {
	case "set", "jset", "flushdb", "rename":
		return v.String() == "+OK"
	case "del", "fset", "expire", "persist", "drop", "pdel", "renamenx", "jdel", "sethook", "setchan", "delhook", "delchan":
		return v.T == ':' && v.N > 0
	}
	return false
}

// installAckTaps attaches a tap to every server-side end of the actors'
// connections (call from a step hook; cheap).
func installAckTaps(w *World, inst *Inst, class string, checked *int) func() {
	swap := &swapMark{step: -1}
	swap.last, _ = os.Stat(inst.srv.opts.AppendFileName)
	return func() {
		if fi, err := os.Stat(inst.srv.opts.AppendFileName); err == nil && (swap.last == nil || !os.SameFile(fi, swap.last)) {
			// the log was rewritten and the file behind the path replaced during this step
			swap.last = fi
			swap.step = w.step
		}
		for _, a := range w.actors {
			if a.end == nil || a.node != inst.node {
				continue
			}
			b := a.end.c.b
			if b.onWrite == nil && b.inst == inst {
				t := &ackTap{w: w, inst: inst, actor: a, gen: a.gen, class: class, checked: checked, swap: swap}
				w.mu.Lock()
				b.onWrite = t.onWrite
				w.mu.Unlock()
			}
		}
	}
}

func runC08(w *World) {
	w.drawWeights()
	w.weights[akFault] = 0
	// the interesting windows are lock/unlock yields: keep them likely
	w.weights[akGrant] = []int{10, 30}[w.knob("wgrant", 2)]
	w.weights[akResume] = []int{3, 10, 30}[w.knob("wresume", 3)]
	w.cut = cutMode(w.knob("cut", 2))
	n := w.addNode("n1", "10.0.0.1", 9851)
	inst := n.start()
	if !inst.ready() {
		w.harnessErr("node did not start")
		return
	}
	checked := 0
	w.stepHooks = append(w.stepHooks, installAckTaps(w, inst, "C08", &checked))
	nw := 2 + w.knob("writers", 2)
	for i := 0; i < nw; i++ {
		i := i
		style := w.knob(fmt.Sprintf("style%d", i), 5)
		prog := w.program(fmt.Sprintf("p%d", i+1), func(r *rand.Rand) []Cmd {
			g := defaultGenCfg(i + 1)
			g.keys = []string{"k1", "k2"}
			var p []Cmd
			nc := 2 + r.Intn(5)
			if style == 4 {
				nc = 100 + r.Intn(120) // one long pipeline: the log buffer grows to tens of KB between flushes
			}
			for j := 0; j < nc; j++ {
				var c Cmd
				switch r.Intn(12) {
				case 0, 1:
					c = Cmd{Args: []string{"FSET", "k1", pick(r, g.freeIDs), "f1", fmt.Sprint(g.uniq())}}
				case 2, 3:
					c = Cmd{Args: []string{"DEL", "k1", pick(r, g.freeIDs)}}
				case 4, 5:
					c = Cmd{Args: []string{"GET", "k1", pick(r, g.freeIDs)}}
				case 7:
					// a script that writes (plain or by hash): its reply acknowledges its writes
					p = appendScript(p, r, scriptCmd(r, g))
					if style == 1 || style == 4 || (style == 2 && r.Intn(2) == 0) {
						for k := len(p) - 1; k >= 0 && k >= len(p)-2; k-- {
							if strings.HasPrefix(p[k].Args[0], "EVAL") || p[k].Args[0] == "SCRIPT" {
								p[k].Pipe = true
							}
						}
					}
					continue
				case 6:
					// values of several sizes around the buffer sizes a write path may care about
					sz := []int{3000, 9000, 11000, 20000, 70000}[r.Intn(5)]
					c = Cmd{Args: []string{"SET", pick(r, g.keys), pick(r, g.freeIDs), "STRING", fmt.Sprintf("v%d-", g.uniq()) + strings.Repeat("x", sz)}}
				case 8:
					// objects that expire while the writers run: the sweeper appends its deletes to the
					// same buffer the writers' commands wait in
					c = Cmd{Args: []string{"SET", pick(r, g.keys), pick(r, g.freeIDs), "EX", []string{"0.1", "0.2", "0.4"}[r.Intn(3)], "POINT", g.lat(r), g.lon(r)}}
				default:
					c = Cmd{Args: []string{"SET", pick(r, g.keys), pick(r, g.freeIDs), "POINT", g.lat(r), g.lon(r)}}
				}
				if style == 1 || style == 4 || (style == 2 && r.Intn(2) == 0) {
					c.Pipe = true
				}
				p = append(p, c)
			}
			if style == 3 {
				// a write followed in the same pipeline by a go-live command
				p = append(p, Cmd{Args: []string{"SET", "k1", "z" + fmt.Sprint(i), "POINT", g.lat(r), g.lon(r)}, Pipe: true})
				switch r.Intn(3) {
				case 0:
					p = append(p, Cmd{Args: []string{"SUBSCRIBE", "news"}, Pipe: true, GoLive: true})
				case 1:
					p = append(p, Cmd{Args: []string{"NEARBY", "k1", "FENCE", "POINT", "10", "10", "100000"}, Pipe: true, GoLive: true})
				default:
					p = append(p, Cmd{Args: []string{"PSUBSCRIBE", "n*"}, Pipe: true, GoLive: true})
				}
			}
			return p
		})
		a := w.addActor(n, simAddr(fmt.Sprintf("127.0.0.1:%d", 50001+i)), prog)
		a.sendTogether = (style == 3 || style == 4) && w.knob(fmt.Sprintf("together%d", i), 2) == 1
	}
	// a third of the runs rewrite the log while the writers run: whatever bookkeeping decides
	// "is there something to flush" has to survive the swap of the file
	withShrink := w.knob("shrink", 3) == 1
	if withShrink {
		sh := w.addActor(n, "127.0.0.1:50090", []Cmd{{Args: []string{"AOFSHRINK"}}, {Args: []string{"AOFSHRINK"}}})
		sh.weight = 1
		w.stat("c08.runs_with_rewrite", 1)
	}
	allDone := func() bool {
		for _, a := range w.actors {
			if !(a.done() || a.live && a.next >= len(a.prog)) {
				return false
			}
		}
		return true
	}
	// in some runs the volume fills up at a drawn write of the log buffer (a prefix of that buffer
	// may still fit): tile38 ends the process there, which for the simulation is a crash of the
	// node - and no acknowledgement of a command whose bytes did not reach the file may have left
	diskFull := w.knob("diskfull", 6) == 1
	if diskFull {
		inst.diskFullAt = 2 + w.knob("fullat", 14)
		inst.diskFullKeep = w.knob("fullkeep", 5)
	}
	died := func() bool { return inst.atPoint == panicPoint }
	over := func() bool { return allDone() || died() }
	w.RunChaos(3000, over)
	if !w.failed() && !over() {
		w.Drain(5e9, over)
	}
	if diskFull && !diskFullSeam {
		w.stat("diskfull.unavailable", 1)
	}
	if !w.failed() && died() {
		w.stat("probe.disk_full_ends_the_process", 1)
		n.crash()
		fb, _ := os.ReadFile(filepath.Join(n.dir, "appendonly.aof"))
		for _, a := range w.actors {
			for _, op := range a.ops {
				if op.Return < 0 || len(op.Cmd.Inner) > 0 || !ackIsDurableWrite(op, op.Reply) {
					continue
				}
				if !bytes.Contains(fb, encodeCmd(op.Cmd.Args)) && !withShrink {
					w.violate("C08/ack-lost-at-disk-full", "the client holds the reply %s to [%s], the process died on a full disk, and the command is not in the surviving appendonly.aof (%d bytes)",
						op.Reply.String(), clipStr(op.Cmd.String(), 120), len(fb))
					break
				}
			}
		}
		if !w.failed() {
			if in2 := n.start(); !in2.ready() {
				w.violate("C08/restart-after-disk-full", "the server does not start on the directory a full disk left behind: %v", in2.serveErr)
			}
		}
	}
	w.stat("c08.acks_checked", checked)
	// non-trivial: at least two connections had acknowledged writes
	writers := 0
	var sm []string
	for _, a := range w.actors {
		k := 0
		for _, op := range a.ops {
			if op.Return >= 0 && ackIsDurableWrite(op, op.Reply) {
				k++
			}
		}
		if k > 0 {
			writers++
		}
		var cs []string
		for _, c := range a.prog {
			cs = append(cs, clipStr(c.String(), 60))
		}
		sm = append(sm, fmt.Sprintf("a%02d: %s", a.id, strings.Join(cs, " ; ")))
	}
	w.nontriv = writers >= 2 && checked >= 2
	w.sample = map[string]interface{}{"seed": w.seed, "programs": sm, "acks_checked": checked}
}
