package server

// Worker entry point. One OS process runs a batch of seeds of one property.

import (
	"encoding/json"
	"fmt"
	"os"
	"path/filepath"
	"regexp"
	"runtime"
	"strconv"
	"strings"
	"sync/atomic"
	"testing"
	"time"
)

type workerViolation struct {
	Seed   int64  `json:"seed"`
	Class  string `json:"class"`
	Msg    string `json:"msg"`
	Step   int    `json:"step"`
	Replay string `json:"replay"`
	Minim  string `json:"minimised,omitempty"`
}

type workerOut struct {
	Property    string            `json:"property"`
	Tier        string            `json:"tier"`
	Runs        int               `json:"runs"`
	NonTrivial  int               `json:"nontrivial"`
	Sigs        []string          `json:"sigs"` // schedule signatures of non-trivial runs
	Stats       map[string]int    `json:"stats"`
	VirtualMs   int64             `json:"virtual_ms"`
	Steps       int64             `json:"steps"`
	Violations  []workerViolation `json:"violations"`
	HarnessErr  []string          `json:"harness_errors"`
	Samples     []interface{}     `json:"samples"`
	Leaked      int               `json:"leaked"`
	NextSeed    int64             `json:"next_seed"`
	Done        bool              `json:"done"`
	WallS       float64           `json:"wall_s"`
	Nondet      []int64           `json:"nondeterministic_seeds,omitempty"`
	KnownHits   map[string]int    `json:"known_hits,omitempty"`
	Unconfirmed int               `json:"unconfirmed,omitempty"`
}

type knownFinding struct {
	ID       string `json:"id"`
	Property string `json:"property"`
	Status   string `json:"status"`
	ClassRe  string `json:"class_re"`
	MsgRe    string `json:"msg_re"`
	cre, mre *regexp.Regexp
}

// loadKnown reads the open known findings of one property (the file is only
// ever read; matching violations are counted, not minimised, and do not stop
// the batch).
func loadKnown(prop string) []*knownFinding {
	path := os.Getenv("VERIF_KNOWN_FILE")
	if path == "" {
		return nil
	}
	b, err := os.ReadFile(path)
	if err != nil {
		return nil
	}
	var f struct {
		Findings []*knownFinding `json:"findings"`
	}
	if json.Unmarshal(b, &f) != nil {
		return nil
	}
	var out []*knownFinding
	for _, k := range f.Findings {
		if k.Property != prop || (k.Status != "" && k.Status != "open") {
			continue
		}
		var e1, e2 error
		k.cre, e1 = regexp.Compile(k.ClassRe)
		k.mre, e2 = regexp.Compile("(?s)" + k.MsgRe)
		if e1 == nil && e2 == nil {
			out = append(out, k)
		}
	}
	return out
}

func envInt(name string, def int64) int64 {
	v := os.Getenv(name)
	if v == "" {
		return def
	}
	n, err := strconv.ParseInt(v, 10, 64)
	if err != nil {
		return def
	}
	return n
}

var watchdogDeadline atomic.Int64

func startWatchdog() {
	go func() {
		for {
			time.Sleep(time.Second)
			d := watchdogDeadline.Load()
			if d != 0 && time.Now().UnixNano() > d {
				buf := make([]byte, 1<<22)
				n := runtime.Stack(buf, true)
				fmt.Fprintf(os.Stderr, "VERIF-WATCHDOG: run exceeded its wall-clock limit\n%s\n", buf[:n])
				os.Exit(3)
			}
		}
	}()
}

func TestSim(t *testing.T) {
	prop := os.Getenv("VERIF_PROP")
	if prop == "" {
		t.Skip("VERIF_PROP not set")
	}
	tier := os.Getenv("VERIF_TIER")
	if tier == "" {
		tier = "quick"
	}
	out := os.Getenv("VERIF_OUT")
	startWatchdog()
	runLimit := time.Duration(envInt("VERIF_RUN_LIMIT_S", 180)) * time.Second

	if rp := os.Getenv("VERIF_REPLAY"); rp != "" {
		b, err := os.ReadFile(rp)
		if err != nil {
			fmt.Fprintln(os.Stderr, "cannot read replay:", err)
			os.Exit(2)
		}
		var rep ReplayFile
		if err := json.Unmarshal(b, &rep); err != nil {
			fmt.Fprintln(os.Stderr, "cannot parse replay:", err)
			os.Exit(2)
		}
		watchdogDeadline.Store(time.Now().Add(runLimit).UnixNano())
		res := runOnce(t, rep.Property, rep.Tier, rep.Seed, &rep)
		watchdogDeadline.Store(0)
		if os.Getenv("VERIF_SHOWLOG") != "" {
			fmt.Println(strings.Join(res.log, "\n"))
		}
		if res.HarnessErr != "" {
			fmt.Println("HARNESS-ERROR:", res.HarnessErr)
			os.Exit(2)
		}
		if res.Class != "" {
			fmt.Printf("REPLAY-VIOLATION property=%s class=%s step=%d %s\n", rep.Property, res.Class, res.Step, res.Msg)
			if out != "" {
				writeJSON(out, res)
			}
			os.Exit(1)
		}
		fmt.Printf("REPLAY-OK property=%s (no violation)\n", rep.Property)
		return
	}

	start := envInt("VERIF_SEED_START", 1)
	count := envInt("VERIF_SEED_COUNT", 1)
	maxRuns := envInt("VERIF_MAXRUNS", 400)
	deadline := envInt("VERIF_DEADLINE", 0)
	selftest := os.Getenv("VERIF_SELFTEST") != ""
	replayDir := os.Getenv("VERIF_REPLAY_DIR")
	progress := os.Getenv("VERIF_PROGRESS")
	maxViol := int(envInt("VERIF_MAX_VIOLATIONS", 3))

	wo := &workerOut{Property: prop, Tier: tier, Stats: map[string]int{}, KnownHits: map[string]int{}}
	known := loadKnown(prop)
	t0 := time.Now()
	seed := start
	for ; seed < start+count; seed++ {
		if int64(wo.Runs) >= maxRuns {
			break
		}
		if deadline != 0 && time.Now().Unix() >= deadline {
			break
		}
		if progress != "" {
			os.WriteFile(progress, []byte(fmt.Sprintf("%d\n", seed)), 0600)
		}
		watchdogDeadline.Store(time.Now().Add(runLimit).UnixNano())
		res := runOnce(t, prop, tier, seed, nil)
		if selftest && res.HarnessErr == "" {
			res2 := runOnce(t, prop, tier, seed, nil)
			if res2.LogHash != res.LogHash || res2.Class != res.Class {
				wo.Nondet = append(wo.Nondet, seed)
				if replayDir != "" {
					os.WriteFile(filepath.Join(replayDir, fmt.Sprintf("nondet-%s-%d-a.log", prop, seed)), []byte(strings.Join(res.log, "\n")), 0600)
					os.WriteFile(filepath.Join(replayDir, fmt.Sprintf("nondet-%s-%d-b.log", prop, seed)), []byte(strings.Join(res2.log, "\n")), 0600)
				}
			}
			// replay of the recorded choice vector must reproduce the run too
			res3 := runOnce(t, prop, tier, seed, res.rec)
			if res3.LogHash != res.LogHash || res3.Class != res.Class {
				wo.Nondet = append(wo.Nondet, -seed)
				if replayDir != "" {
					os.WriteFile(filepath.Join(replayDir, fmt.Sprintf("nondet-%s-%d-a.log", prop, seed)), []byte(strings.Join(res.log, "\n")), 0600)
					os.WriteFile(filepath.Join(replayDir, fmt.Sprintf("nondet-%s-%d-r.log", prop, seed)), []byte(strings.Join(res3.log, "\n")), 0600)
				}
			}
		}
		watchdogDeadline.Store(0)
		wo.Runs++
		if res.Leaked {
			wo.Leaked++
		}
		for k, v := range res.Stats {
			wo.Stats[k] += v
		}
		wo.VirtualMs += res.VirtualMs
		wo.Steps += int64(res.Steps)
		if res.NonTrivial {
			wo.NonTrivial++
			wo.Sigs = append(wo.Sigs, strconv.FormatUint(res.SchedSig, 16))
		}
		if res.Sample != nil && len(wo.Samples) < 3 {
			wo.Samples = append(wo.Samples, res.Sample)
		}
		if res.HarnessErr != "" {
			if os.Getenv("VERIF_SHOWLOG") != "" {
				fmt.Fprintln(os.Stderr, strings.Join(tailLog(res.log, 3000), "\n"))
			}
			wo.HarnessErr = append(wo.HarnessErr, fmt.Sprintf("seed %d: %s", seed, res.HarnessErr))
			if len(wo.HarnessErr) >= 3 {
				seed++
				break
			}
			continue
		}
		if res.Class != "" {
			isKnown := false
			for _, k := range known {
				if k.cre.MatchString(res.Class) && k.mre.MatchString(res.Msg) {
					wo.KnownHits[k.ID]++
					isKnown = true
					break
				}
			}
			if isKnown {
				continue
			}
			// a violation is only reported if re-executing its recorded replay reproduces the
			// same class (on a heavily loaded machine the Go scheduler may preempt a goroutine
			// inside a step, which the simulator does not control)
			confirm := runOnce(t, prop, tier, seed, res.rec)
			if confirm.Class != res.Class {
				fmt.Fprintf(os.Stderr, "UNCONFIRMED seed=%d class=%s msg=%s | on replay: class=%q msg=%s\n", seed, res.Class, clipStr(res.Msg, 300), confirm.Class, clipStr(confirm.Msg, 200))
				wo.Unconfirmed++
				wo.Stats["harness.unconfirmed_violations"]++
				continue
			}
			v := workerViolation{Seed: seed, Class: res.Class, Msg: res.Msg, Step: res.Step}
			if replayDir != "" {
				rec := res.rec
				rec.Class, rec.Violation = res.Class, res.Msg
				rec.Trace = tailLog(res.log, 80)
				raw := filepath.Join(replayDir, fmt.Sprintf("%s-seed%d.json", prop, seed))
				writeJSON(raw, rec)
				v.Replay = raw
				if os.Getenv("VERIF_NOMIN") == "" {
					watchdogDeadline.Store(time.Now().Add(10 * runLimit).UnixNano())
					if m := minimise(t, rec, res.Class); m != nil {
						mp := filepath.Join(replayDir, fmt.Sprintf("%s-seed%d.min.json", prop, seed))
						writeJSON(mp, m)
						v.Minim = mp
						v.Replay = mp
					}
					watchdogDeadline.Store(0)
				}
			}
			wo.Violations = append(wo.Violations, v)
			if len(wo.Violations) >= maxViol {
				seed++
				break
			}
		}
	}
	wo.NextSeed = seed
	wo.Done = seed >= start+count
	wo.WallS = time.Since(t0).Seconds()
	if out != "" {
		writeJSON(out, wo)
	} else {
		b, _ := json.MarshalIndent(wo, "", " ")
		fmt.Println(string(b))
	}
	os.RemoveAll(shmBase)
}

func tailLog(l []string, n int) []string {
	if len(l) > n {
		l = l[len(l)-n:]
	}
	return append([]string(nil), l...)
}

func writeJSON(path string, v interface{}) {
	b, err := json.MarshalIndent(v, "", " ")
	if err != nil {
		fmt.Fprintln(os.Stderr, "marshal:", err)
		os.Exit(2)
	}
	if err := os.WriteFile(path, b, 0644); err != nil {
		fmt.Fprintln(os.Stderr, "write:", err)
		os.Exit(2)
	}
}
