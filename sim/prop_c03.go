package server

// C03 - restart reproduces exactly the acknowledged state.

import (
	"bytes"
	"fmt"
	"math/rand"
	"os"
	"path/filepath"
	"strconv"
	"strings"
	"time"
)

func init() { registerProp("C03", runC03) }

// hookCmds generates hook/channel management commands.
func hookCmd(r *rand.Rand, g *genCfg) Cmd {
	hidx := r.Intn(3)
	name := fmt.Sprintf("h%d", hidx)
	cname := fmt.Sprintf("ch%d", r.Intn(3))
	fence := func() []string {
		key := pick(r, g.keys)
		switch r.Intn(3) {
		case 0:
			return []string{"NEARBY", key, "FENCE", "POINT", g.lat(r), g.lon(r), fmt.Sprint(1000 + r.Intn(100000))}
		case 1:
			return []string{"WITHIN", key, "FENCE", "DETECT", "enter,exit", "BOUNDS", "10", "10", "20", "20"}
		default:
			return []string{"INTERSECTS", key, "FENCE", "BOUNDS", "-10", "-10", "5", "5"}
		}
	}
	opts := func() []string {
		var o []string
		if r.Intn(3) == 0 {
			o = append(o, "META", "owner", fmt.Sprintf("m%d", g.uniq()))
		}
		if r.Intn(4) == 0 {
			o = append(o, "META", "zone", "z1")
		}
		if len(g.exVals) > 0 && r.Intn(4) == 0 {
			o = append(o, "EX", pick(r, g.exVals))
		}
		return o
	}
	switch r.Intn(10) {
	case 0, 1, 2:
		// one hook per endpoint: two senders sharing one HTTP client would race for its connections
		a := []string{"SETHOOK", name, fmt.Sprintf("http://hook%d.sim:80/cb", hidx)}
		a = append(a, opts()...)
		return Cmd{Args: append(a, fence()...)}
	case 3, 4, 5:
		a := []string{"SETCHAN", cname}
		a = append(a, opts()...)
		return Cmd{Args: append(a, fence()...)}
	case 6:
		return Cmd{Args: []string{"DELHOOK", name}}
	case 7:
		return Cmd{Args: []string{"DELCHAN", cname}}
	case 8:
		if r.Intn(2) == 0 {
			return Cmd{Args: []string{"PDELHOOK", []string{"*", "h1", "h*"}[r.Intn(3)]}}
		}
		return Cmd{Args: []string{"PDELCHAN", []string{"*", "ch1", "ch*"}[r.Intn(3)]}}
	default:
		if r.Intn(2) == 0 {
			return Cmd{Args: []string{"HOOKS", "*"}}
		}
		return Cmd{Args: []string{"CHANS", "*"}}
	}
}

// scriptCmd generates an EVAL whose writes are known.
func scriptCmd(r *rand.Rand, g *genCfg) Cmd {
	key := pick(r, g.keys)
	id := pick(r, g.freeIDs)
	lat, lon := g.lat(r), g.lon(r)
	ev := []string{"EVAL", "EVALNA"}[r.Intn(2)]
	switch r.Intn(5) {
	case 3:
		// a deadline set and taken away again inside one atomic script: both are writes
		return Cmd{Args: []string{"EVAL", "tile38.call('SET', KEYS[1], ARGV[1], 'EX', '1000', 'POINT', ARGV[2], ARGV[3]); return tile38.call('PERSIST', KEYS[1], ARGV[1])", "1", key, id, lat, lon},
			Inner: [][]string{{"SET", key, id, "EX", "1000", "POINT", lat, lon}, {"PERSIST", key, id}}}
	case 4:
		return Cmd{Args: []string{"EVAL", "tile38.call('SET', KEYS[1], ARGV[1], 'POINT', ARGV[2], ARGV[3]); return tile38.call('EXPIRE', KEYS[1], ARGV[1], '1000')", "1", key, id, lat, lon},
			Inner: [][]string{{"SET", key, id, "POINT", lat, lon}, {"EXPIRE", key, id, "1000"}}}
	case 0:
		return Cmd{Args: []string{ev, "return tile38.call('SET', KEYS[1], ARGV[1], 'POINT', ARGV[2], ARGV[3])", "1", key, id, lat, lon},
			Inner: [][]string{{"SET", key, id, "POINT", lat, lon}}}
	case 1:
		v := fmt.Sprint(g.uniq())
		return Cmd{Args: []string{ev, "tile38.call('SET', KEYS[1], ARGV[1], 'POINT', ARGV[2], ARGV[3]); return tile38.call('FSET', KEYS[1], ARGV[1], 'f1', ARGV[4])", "1", key, id, lat, lon, v},
			Inner: [][]string{{"SET", key, id, "POINT", lat, lon}, {"FSET", key, id, "f1", v}}}
	default:
		id2 := pick(r, g.freeIDs)
		sv := fmt.Sprintf("s%d", g.uniq())
		return Cmd{Args: []string{ev, "tile38.call('SET', KEYS[1], ARGV[1], 'POINT', ARGV[3], ARGV[4]); return tile38.call('SET', KEYS[1], ARGV[2], 'STRING', ARGV[5])", "1", key, id, id2, lat, lon, sv},
			Inner: [][]string{{"SET", key, id, "POINT", lat, lon}, {"SET", key, id2, "STRING", sv}}}
	}
}

// restartVerifier carries what must hold across a stop/restart.
type restartCtx struct {
	w     *World
	n     *Node
	hc    *histChecker
	class string
	acked map[string]bool // every acknowledged changing write so far (encoded args)
	// torn: the instance is parked at the "aof.flush" point, i.e. inside flushAOF right before its
	// buffer goes to write(2); the crash lands inside that write: a drawn proper prefix of the
	// buffer reaches the file (none of its commands has been acknowledged)
	torn         bool
	shortWritten bool // the crash follows a failed (short) write of the log buffer on a full disk
}

// stopAndRestart stops the node (cleanly or by crash), verifies the surviving
// directory against the acknowledged history, restarts and verifies the
// recovered state. Returns false on failure.
func (rc *restartCtx) stopAndRestart(clean bool) bool {
	w, n, hc := rc.w, rc.n, rc.hc
	inst := n.inst
	hc.lm.poll()
	// the logical log as the dying instance knew it (file + unflushed buffer)
	stream := inst.aofStream()
	for k := range hc.acked {
		rc.acked[k] = true
	}
	if clean {
		if !n.stopClean() {
			return false
		}
		hc.lm.poll()
		stream = inst.aofStream()
	} else if rc.shortWritten {
		// the write that failed on a full disk left a prefix of the buffer behind by itself
		rc.shortWritten = false
		rc.torn = true
		n.crash()
	} else if rc.torn && inst.atPoint == "aof.flush" && len(inst.srv.aofbuf) > 1 {
		buf := append([]byte(nil), inst.srv.aofbuf...)
		n.crash()
		k := 1 + w.ch.choose(len(buf)-1)
		f, err := os.OpenFile(filepath.Join(n.dir, "appendonly.aof"), os.O_WRONLY|os.O_APPEND, 0600)
		if err == nil {
			f.Write(buf[:k])
			f.Close()
		}
		w.stat("fault.crash_inside_log_write", 1)
		w.logf("  torn write: %d of %d buffered bytes reached the file", k, len(buf))
	} else {
		n.crash()
	}
	torn := rc.torn
	rc.torn = false
	surv, err := os.ReadFile(filepath.Join(n.dir, "appendonly.aof"))
	if err != nil {
		w.violate(rc.class+"/restart", "no appendonly.aof in the surviving directory: %v", err)
		return false
	}
	if hc.lm.gen > 0 || inst.srv.shrinking {
		// the log was rewritten (or is being rewritten): its bytes are no longer a prefix of what
		// was appended. The recovered state must be the model after some prefix of the applied
		// writes that contains every acknowledged one.
		lo := 0
		for i := range hc.lm.entries {
			if strings.HasPrefix(hc.lm.entries[i].owner, "a") {
				lo = i + 1
			}
		}
		hi := len(hc.lm.entries)
		if clean {
			lo = hi
		}
		ni := n.start()
		if ni.stopped || !ni.ready() {
			w.violate(rc.class+"/restart", "server does not start on the surviving directory: %v", ni.serveErr)
			return false
		}
		d := ni.dump()
		var firstErr error
		okk := false
		for k := hi; k >= lo; k-- {
			if e := compareDump(hc.lm.states[k], d, true); e == nil {
				okk = true
				break
			} else if firstErr == nil {
				firstErr = e
			}
		}
		if !okk {
			w.violate(rc.class+"/recovered", "after a log rewrite the recovered state is not the model after any prefix in [%d,%d] of the applied writes (every acknowledged write is within the first %d): %v", lo, hi, lo, firstErr)
			return false
		}
		want, _, _, _ := modelFromLog(ni.aofStream(), w.now())
		nhc := newHistChecker(w, ni, want, rc.class)
		nhc.exact = hc.exact
		rc.hc = nhc
		// acknowledged writes up to here are covered by the state comparison; their text is
		// no longer in the rewritten file
		rc.acked = map[string]bool{}
		w.stat("probe.restarts_verified_after_rewrite", 1)
		return true
	}
	if clean {
		// clean stop: everything applied is on disk
		if !bytes.Equal(surv, stream) {
			w.violate(rc.class+"/restart", "after a clean stop the file (%d bytes) is not the whole log (%d bytes)", len(surv), len(stream))
			return false
		}
	} else if hc.lm.gen == 0 || true {
		if len(surv) > len(stream) || !bytes.Equal(surv, stream[:len(surv)]) {
			w.violate(rc.class+"/restart", "surviving file (%d bytes) is not a prefix of the log the server had written (%d bytes)", len(surv), len(stream))
			return false
		}
	}
	ents, rest, perr := parseLog(surv)
	if torn && perr == nil && len(rest) > 0 {
		// the torn command is not part of the state; the server has to cut it off
		w.stat("probe.restart_on_torn_tail", 1)
		surv = surv[:len(surv)-len(rest)]
		rest = nil
	}
	if perr != nil || len(rest) > 0 {
		w.violate(rc.class+"/restart", "surviving file does not end on a command boundary (%d stray bytes, err %v)", len(rest), perr)
		return false
	}
	inFile := map[string]int{}
	for _, e := range ents {
		inFile[strings.Join(e.args, "\x00")]++
	}
	for _, k := range sortedBoolKeys(rc.acked) { // (sorted: which of several lost writes is named must not depend on map order)
		if inFile[k] == 0 {
			w.violate(rc.class+"/lost-ack", "acknowledged write [%s] is not in the surviving log", clipStr(strings.ReplaceAll(k, "\x00", " "), 200))
			return false
		}
	}
	// A script's writes are logged as separate commands without framing, so a crash inside the
	// write of the buffer can leave a script half-logged. The property's unit is the write
	// ("in-flight unacknowledged writes may be present or absent"), not the script, so this is
	// counted and reported in DESIGN.md as an observation, not as a violation.
	for _, a := range w.actors {
		for _, op := range a.ops {
			if len(op.Cmd.Inner) > 1 && (op.name() == "eval" || op.name() == "evalsha") && op.Cmd.Tag != "steps" {
				c := 0
				for _, in := range op.Cmd.Inner {
					if inFile[strings.Join(in, "\x00")] > 0 {
						c++
					}
				}
				if c != 0 && c != len(op.Cmd.Inner) {
					w.stat("probe.script_half_logged_at_crash", 1)
				}
			}
		}
	}
	if !clean && len(surv) < len(stream) {
		w.stat("probe.crash_lost_unflushed_bytes", 1)
	}
	// restart on what survived
	ni := n.start()
	if ni.stopped || !ni.ready() {
		w.violate(rc.class+"/restart", "server does not start on the surviving directory: %v", ni.serveErr)
		return false
	}
	want, _, _, _ := modelFromLog(surv, w.now())
	if err := compareDump(want, ni.dump(), true); err != nil {
		w.violate(rc.class+"/recovered", "state after restart differs from model(surviving log): %v", err)
		return false
	}
	nhc := newHistChecker(w, ni, want, rc.class)
	nhc.exact = hc.exact
	rc.hc = nhc
	w.stat("probe.restarts_verified", 1)
	return true
}

func runC03(w *World) {
	w.drawWeights()
	w.cut = cutMode(w.knob("cut", 2))
	n := w.addNode("n1", "10.0.0.1", 9851)
	// healthy sinks for the webhook endpoints the programs register
	w.addWebhook("hook0.sim:80", nil)
	w.addWebhook("hook1.sim:80", nil)
	w.addWebhook("hook2.sim:80", nil)
	inst := n.start()
	if !inst.ready() {
		w.harnessErr("node did not start")
		return
	}
	rc := &restartCtx{w: w, n: n, class: "C03", acked: map[string]bool{}}
	rc.hc = newHistChecker(w, inst, newModel(), "C03")
	w.stepHooks = append(w.stepHooks, func() { rc.hc.stepHook() }, auditHook(w, func() *Inst { return n.inst }, "C03"))

	nc := 1 + w.knob("clients", 3)
	size := []int{6, 12, 25, 50}[w.knob("size", 4)]
	if w.deep() && w.knob("deep", 3) == 0 {
		size = 120
	}
	// a quarter of the runs also rewrite the log while the clients write; those runs leave out
	// the commands of the open C09 findings (RENAME/RENAMENX/JDEL during a rewrite)
	withShrink := w.knob("shrink", 4) == 0
	if withShrink && w.knob("bulk", 2) == 1 {
		// a collection larger than one batch of the rewrite, ahead (in key order) of the
		// collection the clients write most of their objects into
		var lp []Cmd
		for j := 0; j < 40; j++ {
			lp = append(lp, Cmd{Args: []string{"SET", "k1", fmt.Sprintf("m%02d", j), "POINT", fmt.Sprint(10 + j), "20"}, Pipe: true})
		}
		loader := w.addActor(n, "127.0.0.1:50099", lp)
		loader.onReply = func(op *Op) { rc.hc.onReply(op, loader.end.c.name) }
		if !w.Drain(60*time.Second, loader.done) {
			if !w.failed() {
				w.harnessErr("loader did not finish")
			}
			return
		}
	}
	for i := 0; i < nc; i++ {
		i := i
		prog := w.program(fmt.Sprintf("p%d", i+1), func(r *rand.Rand) []Cmd {
			g := defaultGenCfg(i + 1)
			g.keys = []string{"k1", "k2"}
			g.wRead = 3
			g.exVals = []string{"0.2", "0.5", "1", "3", "100"}
			var p []Cmd
			for j := 0; j < size; j++ {
				switch x := r.Intn(20); {
				case x < 3:
					p = append(p, hookCmd(r, g))
				case x < 5:
					p = appendScript(p, r, scriptCmd(r, g))
				case x == 5 && j%3 == 0:
					// an administrator (or a reconnecting follower) asks for the checksum of a stretch
					// of the log: a read of the file that the history must not notice
					pos := r.Intn(60)
					p = append(p, Cmd{Args: []string{"AOFMD5", strconv.Itoa(pos), strconv.Itoa(1 + r.Intn(40))}, Tag: "aux"})
				default:
					c := g.cmd(r)
					for withShrink && (strings.HasPrefix(strings.ToUpper(c.Args[0]), "RENAME") || strings.ToUpper(c.Args[0]) == "JDEL") {
						c = g.cmd(r)
					}
					p = append(p, c)
				}
			}
			return p
		})
		a := w.addActor(n, simAddr(fmt.Sprintf("127.0.0.1:%d", 50001+i)), prog)
		a.onReply = func(op *Op) { rc.hc.onReply(op, a.end.c.name) }
	}
	if withShrink {
		sh := w.addActor(n, "127.0.0.1:50090", []Cmd{{Args: []string{"AOFSHRINK"}}, {Args: []string{"AOFSHRINK"}}})
		sh.weight = 1
		sh.onReply = func(op *Op) {}
	}
	allDone := func() bool {
		for _, a := range w.actors {
			if !a.done() {
				return false
			}
		}
		return true
	}
	// crash as a scheduler action, biased to instants with in-flight state
	crashes := 1 + w.knob("crashes", 2)
	if w.deep() {
		crashes += w.knob("morecrashes", 3)
	}
	crashPending := false
	tornArmed := false // the first crash of this run is aimed inside a write of the log buffer
	w.faults = append(w.faults, func() []action {
		if crashes <= 0 || crashPending || n.inst.dead || tornArmed {
			return nil
		}
		wt := 1
		if n.inst.lock.writer != nil {
			wt = 6
		}
		for _, r := range n.inst.lock.parked {
			if r.role == "cmd" && r.mode == modeW {
				wt = 12 // between a command's unlock and its pre-write
			}
		}
		if len(n.inst.srv.aofbuf) > 0 {
			wt += 6 // unflushed bytes
		}
		return []action{{kind: akFault, key: "crash n1", w: wt, run: func() { crashPending = true }}}
	})
	w.weights[akFault] = []int{1, 2, 5}[w.knob("wfault", 3)]
	// one run in three aims its first crash inside one particular write of the log buffer
	tornKind := w.knob("tornflush", 3)
	if tornKind == 1 && !withShrink {
		n.inst.parkAtFlush = 1 + w.knob("tornat", 24)
		first := n.inst
		tornArmed = true
		w.stepHooks = append(w.stepHooks, func() {
			if tornArmed && n.inst == first && !first.dead && first.atPoint == "aof.flush" && !crashPending {
				crashPending = true
				rc.torn = true
				tornArmed = false
			}
		})
	}
	// another third lets the disk fill up at one particular write of the log buffer: part of the
	// buffer may still fit, the write fails with ENOSPC, tile38 ends the process - a crash
	if tornKind == 2 && !withShrink {
		n.inst.diskFullAt = 1 + w.knob("tornat", 24)
		n.inst.diskFullKeep = w.knob("fullkeep", 5)
		first := n.inst
		tornArmed = true
		w.stepHooks = append(w.stepHooks, func() {
			if n.inst == first && !first.dead && first.atPoint == panicPoint && !crashPending {
				crashPending = true
				tornArmed = false
				rc.shortWritten = true
				w.stat("probe.crash_by_full_disk", 1)
			}
		})
	}
	for round := 0; round < 4 && !w.failed(); round++ {
		w.RunChaos(size*nc*60, func() bool { return crashPending || allDone() })
		if w.failed() {
			break
		}
		if crashPending {
			crashPending = false
			crashes--
			w.nontriv = true
			if !rc.stopAndRestart(false) {
				break
			}
			continue
		}
		if allDone() {
			break
		}
		tornArmed = false // the aimed write never happened: ordinary crashes from here on
	}
	// the disk fills up only while the crash rounds run: afterwards the fault is disarmed, and a
	// process that already died of it is restarted first
	if n.inst.diskFullAt > 0 && !n.inst.diskFull {
		n.inst.diskFullAt = 0
	}
	if !w.failed() && (crashPending || n.inst.atPoint == panicPoint) {
		crashPending = false
		rc.shortWritten = n.inst.atPoint == panicPoint
		rc.stopAndRestart(false)
	}
	if !w.failed() && !allDone() {
		w.Drain(30*time.Second, allDone)
	}
	// final stop: clean or crash, then verify once more
	if !w.failed() {
		clean := w.knob("finalclean", 2) == 0
		if clean {
			w.stat("probe.final_clean_stop", 1)
		}
		rc.stopAndRestart(clean)
	}
	if !w.failed() {
		apiDumpCheck(w, n, rc.hc.lm, "C03")
	}
	var sm []string
	for _, a := range w.actors {
		for i, op := range a.ops {
			if i < 4 {
				sm = append(sm, fmt.Sprintf("a%02d %s -> %s", a.id, clipStr(op.Cmd.String(), 70), clipStr(op.Reply.String(), 30)))
			}
		}
	}
	w.sample = map[string]interface{}{"seed": w.seed, "clients": nc, "ops": sm, "crashes_injected": w.stats["fault.crash"], "acked_writes": len(rc.acked)}
}
