package server

// History checker: client replies and the visible dataset against the
// reference model, with the append-only log as the witness order of writes.

import (
	"fmt"
	"strconv"
	"strings"
	"time"
)

type histChecker struct {
	w    *World
	inst *Inst
	lm   *LogModel
	// exact: every command's position is its own lock grant (sequential use);
	// otherwise any position inside the invoke/return window is accepted.
	exact      bool
	checkDump  bool // compare the served dataset with the model at quiescent points
	checkHooks bool
	class      string // violation class prefix
	nChecked   int
	nWindows   int             // ops whose window spanned more than one log position
	acked      map[string]bool // strings.Join(args) of acknowledged changing writes
	pendingOps []*Op
	curConn    string
	// tolerateUndef: log entries from these connections may be outside the model
	tolerateUndef func(conn string) bool
	cmpValid      bool
	cmpDigest     uint64
	cmpEntries    int
}

func newHistChecker(w *World, inst *Inst, initial *Model, class string) *histChecker {
	hc := &histChecker{w: w, inst: inst, class: class, checkDump: true, checkHooks: true, acked: map[string]bool{}}
	hc.lm = newLogModel(inst, initial)
	hc.lm.onEntry = hc.onEntry
	return hc
}

// stepHook is installed as a quiescent-point invariant.
func (hc *histChecker) stepHook() {
	inst := hc.inst
	if inst.dead || inst.srv == nil {
		return
	}
	hc.lm.poll()
	if hc.lm.bad != nil {
		hc.w.violate(hc.class+"/log", "%v", hc.lm.bad)
		return
	}
	if hc.checkDump && inst.lock.writer == nil && inst.atPoint == "" {
		// the comparison is skipped while neither side changed
		d := inst.digest()
		if hc.cmpValid && d == hc.cmpDigest && len(hc.lm.entries) == hc.cmpEntries {
			return
		}
		hc.cmpValid, hc.cmpDigest, hc.cmpEntries = true, d, len(hc.lm.entries)
		if err := compareDump(hc.lm.cur(), inst.dump(), hc.checkHooks); err != nil {
			hc.w.violate(hc.class+"/state", "served dataset differs from model(log): %v", err)
		}
	}
}

func (hc *histChecker) grantAt(step int) *grantEvent {
	g := hc.inst.grants
	for i := len(g) - 1; i >= 0; i-- {
		if g[i].step == step && g[i].mode == modeW {
			return &g[i]
		}
		if g[i].step < step {
			break
		}
	}
	return nil
}

func (hc *histChecker) onEntry(e *lmEntry, before, after *Model) {
	w := hc.w
	g := hc.grantAt(e.step)
	if e.res.undef {
		if hc.tolerateUndef != nil && g != nil && hc.tolerateUndef(g.conn) {
			w.stat("check.unmodelled_entries_from_fuzzed_connections", 1)
			return
		}
		w.harnessErr("log entry outside the modelled fragment: %s", clipStr(strings.Join(e.args, " "), 200))
		return
	}
	if g != nil && (g.role == "cmd" || g.role == "luacall") {
		e.conn = g.conn
	}
	if g != nil && g.role == "expire" {
		e.owner = "expire"
		w.stat("probe.expiry_logged", 1)
		switch lower(e.args[0]) {
		case "del":
			o := before.get(e.args[1], e.args[2])
			if o == nil {
				w.violate(hc.class+"/expire", "sweeper deleted %s/%s which the model does not hold", e.args[1], e.args[2])
			} else if !o.hasDL {
				w.violate(hc.class+"/expire", "sweeper deleted %s/%s which has no deadline (stale timer)", e.args[1], e.args[2])
			} else if o.deadline > e.t {
				w.violate(hc.class+"/expire", "sweeper deleted %s/%s at %v, %v before its deadline %v", e.args[1], e.args[2], e.t, o.deadline-e.t, o.deadline)
			}
		case "delhook", "delchan":
			h := before.hooks[e.args[1]]
			if h == nil || !h.hasDL || h.deadline > e.t {
				w.violate(hc.class+"/expire", "sweeper removed hook %s early or without a deadline", e.args[1])
			}
		default:
			w.violate(hc.class+"/expire", "sweeper logged %s", strings.Join(e.args, " "))
		}
	}
}

// cmdGrant finds the lock grant of a client op (non-pipelined connections).
func (hc *histChecker) cmdGrant(op *Op, connID string) *grantEvent {
	for i := range hc.inst.grants {
		g := &hc.inst.grants[i]
		if g.step >= op.Invoke && g.step <= op.Return && g.conn == connID && (g.role == "cmd") {
			return g
		}
	}
	return nil
}

// onReply checks one acknowledged op.
func (hc *histChecker) onReply(op *Op, connID string) {
	w := hc.w
	if w.failed() {
		return
	}
	lm := hc.lm
	lm.poll()
	hc.nChecked++
	if op.Cmd.Tag == "aux" {
		// an auxiliary command outside the model (SCRIPT LOAD): it must succeed and log nothing
		if op.Reply.isErr() && !(lower(op.Cmd.Args[0]) == "aofmd5" && strings.Contains(op.Reply.String(), "EOF")) {
			// (a checksum over a stretch that reaches past the end of the log is refused with EOF)
			w.violate(hc.class+"/reply", "a%02d op%d [%s] failed: %s", op.Client, op.Idx, clipStr(op.Cmd.String(), 100), clipStr(op.Reply.String(), 120))
		}
		return
	}
	if op.Cmd.Tag == "bad" {
		// a deliberately invalid command: an error reply, and nothing appended to the log
		if !op.Reply.isErr() {
			w.violate(hc.class+"/reply", "a%02d op%d invalid command [%s] was answered %s instead of an error", op.Client, op.Idx, clipStr(op.Cmd.String(), 160), clipStr(op.Reply.String(), 120))
			return
		}
		for k := lm.posBefore(op.Invoke); k < len(lm.entries) && lm.entries[k].step <= op.Return; k++ {
			if lm.entries[k].conn == connID && lm.entries[k].owner == "" {
				w.violate(hc.class+"/reply", "a%02d op%d invalid command [%s] was answered with an error but appended [%s] to the log", op.Client, op.Idx, clipStr(op.Cmd.String(), 160), clipStr(strings.Join(lm.entries[k].args, " "), 120))
				return
			}
		}
		return
	}
	if len(op.Cmd.Inner) > 0 {
		hc.curConn = connID
		hc.onScriptReply(op)
		return
	}
	lo, hi := lm.posBefore(op.Invoke), lm.posThrough(op.Return)
	if hc.exact {
		g := hc.cmdGrant(op, connID)
		if g == nil {
			w.harnessErr("no lock grant found for op %s", op.Cmd.String())
			return
		}
		lo = lm.posBefore(g.step)
		hi = lo
	}
	if hi > lo {
		hc.nWindows++
	}
	// virtual instant(s) at which the command may have executed
	tLo, tHi := op.InvokeT, op.ReturnT
	if hc.exact {
		g := hc.cmdGrant(op, connID)
		tLo = w.timeAt(g.step)
		tHi = tLo
	}
	var firstErr error
	for k := lo; k <= hi; k++ {
		if k < len(lm.entries) && sameArgs(lm.entries[k].args, op.Cmd.Args) && lm.entries[k].owner == "" && lm.entries[k].conn == connID {
			// candidate: the op is log entry k
			e := &lm.entries[k]
			if e.step >= op.Invoke && e.step <= op.Return {
				if err := e.res.exp(op.Reply); err != nil {
					if firstErr == nil {
						firstErr = fmt.Errorf("as log entry %d: %v", k, err)
					}
				} else {
					e.owner = fmt.Sprintf("a%02d/op%d", op.Client, op.Idx)
					e.op = op
					if e.res.changed {
						hc.acked[strings.Join(op.Cmd.Args, "\x00")] = true
					}
					return
				}
			}
		}
		// candidate: the op changed nothing and was evaluated on state k
		for _, t := range hc.candidateInstants(lm.states[k], op.Cmd.Args, tLo, tHi) {
			m := lm.states[k].clone()
			m.nowHi = tHi
			r := m.apply(op.Cmd.Args, t)
			if r.undef {
				w.harnessErr("client command outside the modelled fragment: %s", clipStr(op.Cmd.String(), 200))
				return
			}
			if r.changed {
				if firstErr == nil {
					firstErr = fmt.Errorf("at position %d the model says the command changes state, but the log has no such entry there", k)
				}
				continue
			}
			if err := r.exp(op.Reply); err != nil {
				if firstErr == nil {
					firstErr = fmt.Errorf("at position %d: %v", k, err)
				}
				continue
			}
			return
		}
	}
	w.violate(hc.class+"/reply", "a%02d op%d %s -> %s: no position in [%d,%d] of the log explains it: %v",
		op.Client, op.Idx, clipStr(op.Cmd.String(), 200), clipStr(op.Reply.String(), 200), lo, hi, firstErr)
}

// candidateInstants: the instants inside the operation's window at which an unlogged command is
// evaluated. Normally the start of the window (the model's own interval logic covers the rest);
// SETHOOK/SETCHAN ... EX s on a hook that already has a deadline adds the one instant at which the
// new deadline coincides with the old one - the definition is then identical and the server rightly
// answers 0 and logs nothing (with a virtual clock advancing in round amounts this does happen).
func (hc *histChecker) candidateInstants(m *Model, args []string, tLo, tHi time.Duration) []time.Duration {
	out := []time.Duration{tLo}
	if len(args) < 4 {
		return out
	}
	if c := lower(args[0]); c != "sethook" && c != "setchan" {
		return out
	}
	prev := m.hooks[args[1]]
	if prev == nil || !prev.hasDL {
		return out
	}
	for i := 2; i+1 < len(args); i++ {
		switch lower(args[i]) {
		case "nearby", "within", "intersects":
			return out
		case "ex":
			if f, err := strconv.ParseFloat(args[i+1], 64); err == nil {
				if t := prev.deadline - time.Duration(f*float64(time.Second)); t > tLo && t <= tHi {
					out = append(out, t)
				}
			}
			return out
		}
	}
	return out
}

// finish checks that every log entry was caused by somebody.
func (hc *histChecker) finish(allowUnowned func(e *lmEntry) bool) {
	w := hc.w
	if w.failed() {
		return
	}
	hc.lm.poll()
	for i := range hc.lm.entries {
		e := &hc.lm.entries[i]
		if e.owner == "" && (allowUnowned == nil || !allowUnowned(e)) {
			w.violate(hc.class+"/log", "log entry %d (%s) was not caused by any acknowledged command", i, clipStr(strings.Join(e.args, " "), 200))
			return
		}
	}
}

// onScriptReply: an acknowledged script's writes must all be in the log, in
// order, inside the op's window; for EVAL/EVALSHA they must be adjacent and
// appended within one exclusive section.
func (hc *histChecker) onScriptReply(op *Op) {
	w := hc.w
	lm := hc.lm
	failed := op.Reply.isErr() // a script that failed half-way may still have made its first writes
	atomic := op.name() == "eval" || op.name() == "evalsha"
	from := lm.posBefore(op.Invoke)
	prev := -1
	for i, in := range op.Cmd.Inner {
		found := -1
		for j := from; j < len(lm.entries); j++ {
			e := &lm.entries[j]
			if e.step > op.Return {
				break
			}
			if e.owner == "" && sameArgs(e.args, in) && (e.conn == hc.curConn || hc.curConn == "") {
				found = j
				break
			}
		}
		if found < 0 && failed {
			return
		}
		if found < 0 {
			w.violate(hc.class+"/script", "acknowledged script a%02d op%d: its write [%s] is not in the log", op.Client, op.Idx, clipStr(strings.Join(in, " "), 160))
			return
		}
		if atomic && i > 0 && (found != prev+1 || lm.entries[found].step != lm.entries[prev].step) {
			w.violate(hc.class+"/script", "script a%02d op%d is not contiguous in the log: write %d at entry %d (step %d), previous at entry %d (step %d)",
				op.Client, op.Idx, i, found, lm.entries[found].step, prev, lm.entries[prev].step)
			return
		}
		op.Applied = i + 1
		lm.entries[found].owner = fmt.Sprintf("a%02d/op%d/script", op.Client, op.Idx)
		hc.acked[strings.Join(in, "\x00")] = true
		prev = found
		from = found + 1
	}
}
