#!/bin/bash
# dev helper: build + run one worker batch, print summary
P=$1; S=${2:-1}; C=${3:-50}; shift 3
BIN=$(/verif/bin/build) || exit 2
mkdir -p /tmp/rp
env VERIF_PROP=$P VERIF_SEED_START=$S VERIF_SEED_COUNT=$C VERIF_REPLAY_DIR=/tmp/rp VERIF_OUT=/tmp/rp/out.json "$@" $BIN -test.run TestSim -test.timeout 30m 2>&1 | tail -5
python3 - <<'PY'
import json
d=json.load(open('/tmp/rp/out.json'))
print('runs',d['runs'],'nontriv',d['nontrivial'],'distinct',len(set(d['sigs'] or [])),'wall',round(d['wall_s'],2),'leaked',d['leaked'],'nondet',d.get('nondeterministic_seeds'))
for v in (d['violations'] or []): print('VIOL',v['seed'],v['class'],v['msg'][:600])
for h in (d['harness_errors'] or []): print('HERR',h[:1500])
print({k:v for k,v in sorted(d['stats'].items()) if not k.startswith('act.')})
PY
